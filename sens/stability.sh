#!/bin/bash
# usage: stability.sh <seed>...   runs every quick check on the unchanged tree at each seed; prints non-OK results
cd /verif
for s in "$@"; do
  for p in C01 C02 C03 C04 C05 C06 C07 C08 C09 C10 C11 C12 C13 C14 C15 C16 C17 C18 C19 C20; do
    out=$(VERIF_SEED=$s VERIF_EVIDENCE_DIR=/tmp/ev-stab VERIF_WORK=/tmp/work-stab-$s ./check $p 2>&1 | tail -4)
    rc=$?
    last=$(echo "$out" | tail -1)
    case "$last" in OK*) echo "seed $s $last";; *) echo "seed $s $p NOT-OK: $out";; esac
  done
  rm -rf /tmp/work-stab-$s
done
