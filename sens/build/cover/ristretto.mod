module github.com/dgraph-io/ristretto/v2

go 1.24.0

toolchain go1.25.0

require (
	github.com/cespare/xxhash/v2 v2.3.0
	github.com/dgryski/go-farm v0.0.0-20240924180020-3414d57e47da
	github.com/dustin/go-humanize v1.0.1
	github.com/stretchr/testify v1.11.1
	golang.org/x/sys v0.36.0
)

require (
	github.com/davecgh/go-spew v1.1.1 // indirect
	github.com/pmezard/go-difflib v1.0.0 // indirect
	gopkg.in/yaml.v3 v3.0.1 // indirect
)

require pgregory.net/rapid v1.3.0
