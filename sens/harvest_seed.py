#!/usr/bin/env python3
"""harvest_seed.py <worktree> <name> [--checks C01,C02,...]
Verifies a seeded change produced by a sub-agent in a scratch copy (demo fails with / passes without the
change, existing suite passes with it), runs the given quick checks against the changed copy, and stores
patch.diff, the demo and meta.json under /verif/seeded/<name>/."""
HSNAP = None
import json, os, shutil, subprocess, sys, time
wt, name = sys.argv[1], sys.argv[2]
checks = sys.argv[sys.argv.index("--checks") + 1].split(",") if "--checks" in sys.argv else []
skip_suite = "--skip-suite" in sys.argv
VERIF = "/verif"
import tempfile
HSNAP = tempfile.mkdtemp(prefix="vf-harness-")
shutil.rmtree(HSNAP); shutil.copytree("/verif/harness", HSNAP)
seed = os.path.join(wt, "SEED")
meta = json.load(open(os.path.join(seed, "meta.json")))
d = "/tmp/vf-seedchk-" + name
shutil.rmtree(d, ignore_errors=True); os.makedirs(d)
subprocess.run("git -C /repo archive HEAD | tar -x -C " + d, shell=True, check=True)
env = dict(os.environ, GOFLAGS="-mod=mod", GOPROXY="off")
def sh(cmd, **kw):
    return subprocess.run(cmd, shell=True, cwd=d, env=env, capture_output=True, text=True, **kw)
patch = os.path.join(seed, "patch.diff")
demo = [f for f in os.listdir(seed) if f.endswith("_test.go") or f.endswith("_test.go.txt")][0]
pkgdir = meta.get("demo_package_dir", ".") or "."
pkgdir = pkgdir.replace(wt, "").strip("/") or "."
pkgdir = pkgdir.split()[0].rstrip("/") if pkgdir.split() else "."
if pkgdir.startswith("tmp/") or not os.path.isdir(os.path.join(d, pkgdir)):
    pkgdir = "."
ran = []
r = sh("git apply " + patch); assert r.returncode == 0, r.stderr
shutil.copy(os.path.join(seed, demo), os.path.join(d, pkgdir, "zz_seed_demo_test.go"))
cmd = "go test -vet=off -count=1 -run 'TestSeedDemo$' ./%s" % pkgdir
r1 = sh(cmd); ran.append(cmd + "  [with change] rc=%d" % r1.returncode)
sh("git apply -R " + patch)
r2 = sh(cmd); ran.append(cmd + "  [without change] rc=%d" % r2.returncode)
sh("git apply " + patch)
os.remove(os.path.join(d, pkgdir, "zz_seed_demo_test.go"))
suite_ok = None
if not skip_suite:
    r3 = sh("go test -vet=off -count=1 ./...")
    suite_ok = r3.returncode == 0
    ran.append("go test -vet=off -count=1 ./...  [with change, demo removed] rc=%d" % r3.returncode)
oldmeta = os.path.join(VERIF, "seeded", name, "meta.json")
if suite_ok is None and os.path.exists(oldmeta):
    om = json.load(open(oldmeta))
    suite_ok = om.get("verified_by_me", {}).get("existing_suite_passes_with_change")
    ran += [x for x in om.get("what_i_ran", []) if x.startswith("go test -vet=off -count=1 ./...")]
result = dict(demo_fails_with_change=r1.returncode != 0, demo_passes_without_change=r2.returncode == 0, existing_suite_passes_with_change=suite_ok)
print(name, result)
caught = {}
for c in checks:
    e = dict(os.environ, VERIF_REPO=d, VERIF_WORK=d + ".work", VERIF_EVIDENCE_DIR=d + ".ev", VERIF_BUILD=d + ".build", VERIF_HARNESS=HSNAP)
    t0 = time.time()
    p = subprocess.run([VERIF + "/check", c, "--tier", "quick"], cwd=VERIF, env=e, capture_output=True, text=True)
    sig = [l.strip()[:200] for l in p.stdout.splitlines() if l.strip().startswith("signature=")]
    caught[c] = dict(rc=p.returncode, wall_s=round(time.time() - t0, 1), signatures=sig[:2])
    print(" ", c, caught[c])
    ran.append("VERIF_REPO=<scratch copy with the patch> ./check %s --tier quick  rc=%d" % (c, p.returncode))
for x in (d, d + ".work", d + ".ev", d + ".build"):
    shutil.rmtree(x, ignore_errors=True)
out = os.path.join(VERIF, "seeded", name)
os.makedirs(out, exist_ok=True)
shutil.copy(patch, os.path.join(out, "patch.diff"))
shutil.copy(os.path.join(seed, demo), os.path.join(out, "demo_test.go.txt"))
meta_out = dict(breaks_property=meta.get("property"), origin="independent sub-agent given only the property text and a scratch worktree",
                what_changed=meta.get("what_changed"), why_it_breaks_the_property=meta.get("why_it_breaks_the_property"),
                needs_to_manifest=meta.get("needs_to_manifest"), demo_package_dir=pkgdir, agent_meta=meta,
                verified_by_me=result, checks_run_against_it=caught, what_i_ran=ran)
json.dump(meta_out, open(os.path.join(out, "meta.json"), "w"), indent=1)
