#!/bin/bash
# usage: sens/try.sh <seed-name> <check ids...>   - runs checks against a scratch copy of /repo with the seeded change
seed=$1; shift
d=/tmp/vf-try-$seed
rm -rf $d $d.work $d.ev; mkdir -p $d
git -C /repo archive HEAD | tar -x -C $d
(cd $d && git apply /verif/seeded/$seed/patch.diff) || { echo "patch failed"; exit 2; }
for c in "$@"; do
  VERIF_REPO=$d VERIF_WORK=$d.work VERIF_EVIDENCE_DIR=$d.ev VERIF_BUILD=$d.build /verif/check $c 2>&1 | grep -E "^(OK|VIOLATION|INCONCLUSIVE|  signature)" | cut -c1-230 | sed "s/^/$seed $c: /"
done
rm -rf $d $d.work $d.ev $d.build
