#!/usr/bin/env python3
"""cross.py [names...]: runs EVERY quick check against each seeded change (scratch copy + patch) and records which
checks raise an alarm, in seeded/<name>/cross.json. Used to study attribution (alarms of checks other than the target)."""
HSNAP = None
import json, os, shutil, subprocess, sys, time
VERIF = "/verif"
import tempfile
HSNAP = tempfile.mkdtemp(prefix="vf-harness-")
shutil.rmtree(HSNAP); shutil.copytree("/verif/harness", HSNAP)
names = sys.argv[1:] or sorted(os.listdir(os.path.join(VERIF, "seeded")))
props = [json.loads(l)["id"] for l in open(os.path.join(VERIF, "properties.jsonl"))]
for name in names:
    sd = os.path.join(VERIF, "seeded", name)
    if not os.path.exists(os.path.join(sd, "patch.diff")):
        continue
    d = "/tmp/vf-cross-" + name
    shutil.rmtree(d, ignore_errors=True); os.makedirs(d)
    subprocess.run("git -C /repo archive HEAD | tar -x -C " + d, shell=True, check=True)
    r = subprocess.run(["git", "apply", os.path.join(sd, "patch.diff")], cwd=d, capture_output=True, text=True)
    assert r.returncode == 0, r.stderr
    meta = json.load(open(os.path.join(sd, "meta.json")))
    files = " ".join(meta.get("agent_meta", {}).get("files_changed", []))
    res = {}
    for p in props:
        # z/ changes cannot affect root-package checks and vice versa (the tree uses simd; nothing else crosses)
        zprop = p in ("C10", "C11", "C12", "C16", "C19", "C20")
        zchange = "z/" in files and "z/z.go" not in files
        if files and zprop != zchange and not (p == "C18" and "bbloom" in files) and not (p == "C09" and "bbloom" in files):
            continue
        e = dict(os.environ, VERIF_REPO=d, VERIF_WORK=d + ".work", VERIF_EVIDENCE_DIR=d + ".ev", VERIF_BUILD=d + ".build", VERIF_HARNESS=HSNAP)
        t0 = time.time()
        c = subprocess.run([VERIF + "/check", p, "--tier", "quick"], cwd=VERIF, env=e, capture_output=True, text=True)
        sig = [l.strip()[:220] for l in c.stdout.splitlines() if l.strip().startswith("signature=")]
        res[p] = dict(rc=c.returncode, wall_s=round(time.time() - t0, 1), signatures=sig[:2])
        print(name, p, res[p], flush=True)
    json.dump(res, open(os.path.join(sd, "cross.json"), "w"), indent=1)
    for x in (d, d + ".work", d + ".ev", d + ".build"):
        shutil.rmtree(x, ignore_errors=True)
