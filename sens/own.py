#!/usr/bin/env python3
"""own.py [names...]: every seeded change against the quick check of its OWN property (the detection table), in parallel."""
import json, os, shutil, subprocess, sys, tempfile
from concurrent.futures import ThreadPoolExecutor
VERIF="/verif"
HSNAP=tempfile.mkdtemp(prefix="vf-harness-"); shutil.rmtree(HSNAP); shutil.copytree("/verif/harness", HSNAP)
names=sys.argv[1:] or sorted(os.listdir(VERIF+"/seeded"))
seed=os.environ.get("VERIF_SEED","1")
def one(name):
    p=name[:3]; d="/tmp/vf-own-"+name
    shutil.rmtree(d, ignore_errors=True); os.makedirs(d)
    subprocess.run("git -C /repo archive HEAD | tar -x -C "+d, shell=True, check=True)
    r=subprocess.run(["git","apply",VERIF+"/seeded/"+name+"/patch.diff"],cwd=d,capture_output=True,text=True)
    if r.returncode!=0: return name,"NOAPPLY",""
    e=dict(os.environ,VERIF_REPO=d,VERIF_WORK=d+".work",VERIF_EVIDENCE_DIR=d+".ev",VERIF_BUILD=d+".build",VERIF_HARNESS=HSNAP,VERIF_SEED=seed)
    c=subprocess.run([VERIF+"/check",p,"--tier","quick"],cwd=VERIF,env=e,capture_output=True,text=True)
    sig=[l.strip()[10:120] for l in c.stdout.splitlines() if l.strip().startswith("signature=")]
    for x in (d,d+".work",d+".ev",d+".build"): shutil.rmtree(x, ignore_errors=True)
    return name,c.returncode,(sig[:1] or [""])[0]
with ThreadPoolExecutor(4) as ex:
    for name,rc,sig in ex.map(one,names):
        print(name,rc,sig,flush=True)
shutil.rmtree(HSNAP, ignore_errors=True)
