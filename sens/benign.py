#!/usr/bin/env python3
"""benign.py [names...]: behaviour-preserving changes (benign/<name>/patch.diff) - every quick check that the change
could affect must stay silent. Results in benign/<name>/result.json. An alarm here is a false alarm of the check unless
the change turns out not to preserve behaviour after all (then it is recorded as such, with the reason)."""
import json, os, shutil, subprocess, sys, time, tempfile
VERIF = "/verif"
HSNAP = tempfile.mkdtemp(prefix="vf-harness-")
shutil.rmtree(HSNAP); shutil.copytree("/verif/harness", HSNAP)
names = sys.argv[1:] or sorted(os.listdir(os.path.join(VERIF, "benign")))
props = [json.loads(l)["id"] for l in open(os.path.join(VERIF, "properties.jsonl"))]
seeds = os.environ.get("BENIGN_SEEDS", "1 2").split()
for name in names:
    sd = os.path.join(VERIF, "benign", name)
    if not os.path.exists(os.path.join(sd, "patch.diff")):
        continue
    d = "/tmp/vf-benign-" + name
    shutil.rmtree(d, ignore_errors=True); os.makedirs(d)
    subprocess.run("git -C /repo archive HEAD | tar -x -C " + d, shell=True, check=True)
    r = subprocess.run(["git", "apply", os.path.join(sd, "patch.diff")], cwd=d, capture_output=True, text=True)
    if r.returncode != 0:
        print(name, "PATCH DOES NOT APPLY", r.stderr[:200]); continue
    meta = json.load(open(os.path.join(sd, "meta.json")))
    files = " ".join(meta.get("files_changed", []))
    res = {}
    for p in props:
        zprop = p in ("C10", "C11", "C12", "C16", "C19", "C20")
        zchange = "z/" in files and "z/z.go" not in files
        if files and zprop != zchange and not (p in ("C18", "C09") and "bbloom" in files):
            continue
        for sd_ in seeds:
            e = dict(os.environ, VERIF_REPO=d, VERIF_WORK=d + ".work", VERIF_EVIDENCE_DIR=d + ".ev", VERIF_BUILD=d + ".build", VERIF_HARNESS=HSNAP, VERIF_SEED=sd_)
            t0 = time.time()
            c = subprocess.run([VERIF + "/check", p, "--tier", "quick"], cwd=VERIF, env=e, capture_output=True, text=True)
            sig = [l.strip()[:260] for l in c.stdout.splitlines() if l.strip().startswith("signature=") or l.startswith("INCONCLUSIVE") or "BUILD-FAILED" in l]
            ex = {}
            try:
                ev = json.load(open(os.path.join(d + ".ev", p + ".json")))
                ex = {k: v for k, v in (ev["coverage"].get("excluded_by_construction") or {}).items() if k.startswith(("diverged_other", "continued_after_other", "harness"))}
            except Exception:
                pass
            res["%s@%s" % (p, sd_)] = dict(rc=c.returncode, wall_s=round(time.time() - t0, 1), signatures=sig[:3], excluded=ex)
            print(name, p, sd_, res["%s@%s" % (p, sd_)], flush=True)
    json.dump(res, open(os.path.join(sd, "result.json"), "w"), indent=1)
    for x in (d, d + ".work", d + ".ev", d + ".build"):
        shutil.rmtree(x, ignore_errors=True)
shutil.rmtree(HSNAP, ignore_errors=True)
