#!/bin/bash
# usage: sens/divscan.sh <seeds...>  - unchanged tree: run every check, report any verdict other than OK and any case that
# was discarded because an assertion of ANOTHER property fired (on the unchanged tree that is a latent false alarm or a defect)
cd /verif
for s in "$@"; do
  for p in C01 C02 C03 C04 C05 C06 C07 C08 C09 C10 C11 C12 C13 C14 C15 C16 C17 C18 C19 C20; do
    out=$(VERIF_SEED=$s VERIF_EVIDENCE_DIR=/tmp/divscan-ev ./check $p | tail -1)
    case "$out" in OK*) ;; *) echo "seed $s $p: $out";; esac
    python3 - "$s" "$p" <<'PY'
import json,sys
s,p=sys.argv[1:3]
try:
    d=json.load(open('/tmp/divscan-ev/%s.json'%p))
except Exception as e:
    print('seed',s,p,'no evidence',e); sys.exit()
ex=d['coverage'].get('excluded_by_construction') or {}
for k,v in ex.items():
    if k.startswith('diverged_other') or k.startswith('continued_after_other') or k.startswith('harness'):
        print('seed',s,p,'EXCLUDED',k,v)
PY
  done
done
echo divscan-done
