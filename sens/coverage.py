#!/usr/bin/env python3
"""Development aid: statement coverage of /repo's non-test sources reached by the harness at roughly quick-tier case
counts. Prints per file the uncovered line ranges. Not a check and not evidence: it shows where generators do not reach."""
import os, sys, subprocess, re, collections
sys.argv = ["check"]; sys.path.insert(0, "/verif")
__file__ = "/verif/check"
exec(open('/verif/check').read().split("if __name__")[0])
b = Builder("cover")
out = '/verif/work/cover'
os.makedirs(out, exist_ok=True)
profiles = []
for pkg in ["ristretto", "z", "simd"]:
    bin = b.build(pkg, "cover")
    if not bin:
        sys.exit(2)
    env = go_env(); env['VERIF_WORKDIR'] = out; env['TMPDIR'] = out; env['VERIF_EVIDENCE_DIR'] = out
    prof = os.path.join(out, pkg + '.cov')
    subprocess.run([bin, '-test.run', '^TestVf_', '-test.coverprofile', prof, '-rapid.checks', os.environ.get('CASES', '300'), '-rapid.seed', '7', '-rapid.nofailfile'],
                   cwd=out, env=env, stdout=subprocess.DEVNULL, stderr=subprocess.DEVNULL, timeout=3600)
    profiles.append(prof)
unc = collections.defaultdict(list)
tot = collections.Counter(); cov = collections.Counter()
for prof in profiles:
    for line in open(prof):
        m = re.match(r'(.+):(\d+)\.\d+,(\d+)\.\d+ (\d+) (\d+)$', line.strip())
        if not m: continue
        f, a, z, n, c = m.group(1), int(m.group(2)), int(m.group(3)), int(m.group(4)), int(m.group(5))
        if 'zz_vf' in f or f.endswith('_test.go'): continue
        tot[f] += n
        if c: cov[f] += n
        else: unc[f].append((a, z))
for f in sorted(tot):
    print('%-60s %4d/%4d' % (f, cov[f], tot[f]))
    for a, z in sorted(unc[f]):
        print('      uncovered %d-%d' % (a, z))
b.cleanup()
