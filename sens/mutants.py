"""Hand-written mutants for the sensitivity runs (DESIGN.md section 6).
Each: (name, property, file, old, new). old must occur exactly once in file."""
M = []
def m(name, prop, file, old, new):
    M.append(dict(name=name, prop=prop, file=file, old=old, new=new))

# ---- C01
m("c01-get-ignores-conflict", "C01", "store.go", """	if conflict != 0 && (conflict != item.conflict) {
		return zeroValue[V](), false
	}

	// Handle expired items.""", """
	// Handle expired items.""")
m("c01-set-overwrites-colliding", "C01", "store.go", """		if i.Conflict != 0 && (i.Conflict != item.conflict) {
			return
		}
		if m.shouldUpdate != nil && !m.shouldUpdate(i.Value, item.value) {
			return
		}
		m.em.update(i.Key, i.Conflict, item.expiration, i.Expiration)""", """		if m.shouldUpdate != nil && !m.shouldUpdate(i.Value, item.value) {
			return
		}
		m.em.update(i.Key, i.Conflict, item.expiration, i.Expiration)""")
m("c01-update-ignores-conflict", "C01", "store.go", """	if newItem.Conflict != 0 && (newItem.Conflict != item.conflict) {
		return zeroValue[V](), false
	}
	if m.shouldUpdate != nil && !m.shouldUpdate(newItem.Value, item.value) {
		return item.value, false
	}""", """	if m.shouldUpdate != nil && !m.shouldUpdate(newItem.Value, item.value) {
		return item.value, false
	}""")
# ---- C02
m("c02-exit-new-value-on-overwrite", "C02", "cache.go", """	if prev, ok := c.storedItems.Update(i); ok {
		c.onExit(prev)""", """	if _, ok := c.storedItems.Update(i); ok {
		c.onExit(i.Value)""")
m("c02-victim-not-removed-from-map", "C02", "cache.go", """					victim.Conflict, victim.Value = c.storedItems.Del(victim.Key, 0)
					onEvict(victim)""", """					victim.Value, _ = c.storedItems.Get(victim.Key, 0)
					onEvict(victim)""")
m("c02-del-notify-without-detach", "C02", "cache.go", """	_, prev := c.storedItems.Del(keyHash, conflictHash)
	c.onExit(prev)
	// If we've set""", """	prev, _ := c.storedItems.Get(keyHash, conflictHash)
	c.onExit(prev)
	// If we've set""")
# ---- C03
m("c03-roomleft-off-by-one", "C03", "policy.go", """	if room >= 0 {
		// There's enough room""", """	if room >= -1 {
		// There's enough room""")
m("c03-del-forgets-used", "C03", "policy.go", """	p.used -= cost
	delete(p.keyCosts, key)""", """	delete(p.keyCosts, key)
	if len(p.keyCosts) == 0 {
		p.used = 0
	}""")
m("c03-update-wrong-delta", "C03", "policy.go", """		p.used += cost - prev
		p.keyCosts[key] = cost
		return true""", """		p.used += prev - cost
		p.keyCosts[key] = cost
		return true""")
m("c03-no-too-large-guard", "C03", "policy.go", """	if cost > p.evict.getMaxCost() {
		return nil, false
	}

	// No need to go any further""", """
	// No need to go any further""")
m("c03-skip-internal-cost-on-update", "C03", "cache.go", """			if !c.ignoreInternalCost {
				// Add the cost of internally storing the object.
				i.Cost += itemSize
			}""", """			if !c.ignoreInternalCost && i.flag != itemUpdate {
				// Add the cost of internally storing the object.
				i.Cost += itemSize
			}""")
m("c03-evict-loop-stops-early", "C03", "policy.go", """	for ; room < 0; room = p.evict.roomLeft(cost) {""", """	for ; room < -1; room = p.evict.roomLeft(cost) {""")
# ---- C04
m("c04-clear-releases-buffered-updates", "C04", "cache.go", """			if i.flag != itemUpdate {
				// In itemUpdate, the value is already set in the storedItems.  So, no need to call
				// onEvict here.
				c.onEvict(i)
			}""", """			if i.flag != itemDelete {
				c.onEvict(i)
			}""")
m("c04-clear-leaks-buffered-new", "C04", "cache.go", """			if i.flag != itemUpdate {
				// In itemUpdate, the value is already set in the storedItems.  So, no need to call
				// onEvict here.
				c.onEvict(i)
			}""", """			if i.flag == itemDelete {
				c.onEvict(i)
			}""")
m("c04-reject-no-exit", "C04", "cache.go", """		if config.OnReject != nil {
			config.OnReject(item)
		}
		cache.onExit(item.Value)""", """		if config.OnReject != nil {
			config.OnReject(item)
			return
		}
		cache.onExit(item.Value)""")
m("c04-dropped-set-returns-true", "C04", "cache.go", """		c.Metrics.add(dropSets, keyHash, 1)
		return false""", """		c.Metrics.add(dropSets, keyHash, 1)
		return c.Metrics == nil""")
m("c04-too-large-silently-dropped", "C04", "cache.go", """				} else {
					c.onReject(i)
				}""", """				} else if i.Cost <= c.cachePolicy.MaxCost() {
					c.onReject(i)
				}""")
# ---- C05
m("c05-no-tombstone", "C05", "cache.go", """	c.setBuf <- &Item[V]{
		flag:     itemDelete,
		Key:      keyHash,
		Conflict: conflictHash,
	}""", """	if c.cachePolicy.Has(keyHash) {
		c.setBuf <- &Item[V]{
			flag:     itemDelete,
			Key:      keyHash,
			Conflict: conflictHash,
		}
	}""")
m("c05-tombstone-droppable", "C05", "cache.go", """	c.setBuf <- &Item[V]{
		flag:     itemDelete,
		Key:      keyHash,
		Conflict: conflictHash,
	}""", """	select {
	case c.setBuf <- &Item[V]{
		flag:     itemDelete,
		Key:      keyHash,
		Conflict: conflictHash,
	}:
	default:
	}""")
m("c05-tombstone-skips-map", "C05", "cache.go", """				c.cachePolicy.Del(i.Key) // Deals with metrics updates.
				_, val := c.storedItems.Del(i.Key, i.Conflict)
				c.onExit(val)""", """				c.cachePolicy.Del(i.Key) // Deals with metrics updates.
				if i.Conflict != 0 {
					_, val := c.storedItems.Del(i.Key, i.Conflict)
					c.onExit(val)
				}""")
# ---- C06
m("c09-fastpath-needs-strict-room", "C09", "policy.go", """	if room >= 0 {
		// There's enough room""", """	if room > 0 {
		// There's enough room""")
m("c06-wait-marker-out-of-band", "C06", "cache.go", """	wait := make(chan struct{})
	c.setBuf <- &Item[V]{wait: wait}
	<-wait""", """	wait := make(chan struct{})
	select {
	case c.setBuf <- &Item[V]{wait: wait}:
		<-wait
	default:
	}""")
m("c06-update-of-expired-resident-not-applied", "C06", "store.go", """	if m.shouldUpdate != nil && !m.shouldUpdate(newItem.Value, item.value) {
		return item.value, false
	}

	m.em.update""", """	if m.shouldUpdate != nil && !m.shouldUpdate(newItem.Value, item.value) {
		return item.value, false
	}
	if !item.expiration.IsZero() && newItem.Expiration.IsZero() && time.Now().After(item.expiration) {
		return zeroValue[V](), false
	}

	m.em.update""")
# ---- C07
m("c07-get-before-instead-of-after", "C07", "store.go", """	if !item.expiration.IsZero() && time.Now().After(item.expiration) {
		return zeroValue[V](), false
	}
	return item.value, true""", """	if !item.expiration.IsZero() && !time.Now().Before(item.expiration.Add(-time.Millisecond)) {
		return zeroValue[V](), false
	}
	return item.value, true""")
m("c07-iter-no-expiry-check", "C07", "store.go", """				if !item.expiration.IsZero() && time.Now().After(item.expiration) {
					continue
				}""", """""")
m("c07-update-keeps-old-expiration", "C07", "store.go", """	m.data[newItem.Key] = storeItem[V]{
		key:        newItem.Key,
		conflict:   newItem.Conflict,
		value:      newItem.Value,
		expiration: newItem.Expiration,
	}

	return item.value, true""", """	exp := newItem.Expiration
	if exp.IsZero() {
		exp = item.expiration
	}
	m.data[newItem.Key] = storeItem[V]{
		key:        newItem.Key,
		conflict:   newItem.Conflict,
		value:      newItem.Value,
		expiration: exp,
	}

	return item.value, true""")
m("c07-getttl-no-expiry-check", "C07", "cache.go", """	if time.Now().After(expiration) {
		// found but expired
		return 0, false
	}

	return time.Until(expiration), true""", """	return time.Until(expiration).Truncate(time.Microsecond), true""")
m("c07-negative-ttl-stored", "C07", "cache.go", """	case ttl < 0:
		// Treat this a no-op.
		return false""", """	case ttl < -int64(time.Microsecond):
		// Treat this a no-op.
		return false
	case ttl < 0:
		break""".replace("-int64(time.Microsecond)", "-time.Microsecond"))
# ---- C08
m("c08-expiration-without-lock", "C08", "store.go", """func (m *lockedMap[V]) Expiration(key uint64) time.Time {
	m.RLock()
	defer m.RUnlock()
	return m.data[key].expiration""", """func (m *lockedMap[V]) Expiration(key uint64) time.Time {
	return m.data[key].expiration""")
m("c08-maxcost-plain-read", "C08", "policy.go", """func (p *sampledLFU) getMaxCost() int64 {
	return atomic.LoadInt64(&p.maxCost)""", """func (p *sampledLFU) getMaxCost() int64 {
	return p.maxCost""")
m("c08-metrics-clear-plain-store", "C08", "cache.go", """			atomic.StoreUint64(p.all[i][j], 0)""", """			*p.all[i][j] = 0""")
m("c08-cap-without-lock", "C08", "policy.go", """	p.Lock()
	capacity := p.evict.getMaxCost() - p.evict.used
	p.Unlock()
	return capacity""", """	capacity := p.evict.getMaxCost() - p.evict.used
	return capacity""")
# ---- C09
m("c09-reject-on-tie", "C09", "policy.go", """		if incHits < minHits {""", """		if incHits <= minHits {""")
m("c09-pick-max-instead-of-min", "C09", "policy.go", """		minKey, minHits, minId, minCost := uint64(0), int64(math.MaxInt64), 0, int64(0)
		for i, pair := range sample {
			// Look up hit count for sample key.
			if hits := p.admit.Estimate(pair.key); hits < minHits {""", """		minKey, minHits, minId, minCost := uint64(0), int64(-1)+0*int64(math.MaxInt64), 0, int64(0)
		for i, pair := range sample {
			// Look up hit count for sample key.
			if hits := p.admit.Estimate(pair.key); hits > minHits {""")
m("c09-never-reject", "C09", "policy.go", """		if incHits < minHits {
			p.metrics.add(rejectSets, key, 1)
			return victims, false
		}""", """		if incHits < minHits && len(victims) == 0 {
			p.metrics.add(rejectSets, key, 1)
			return victims, false
		}""")
m("c09-estimate-without-doorkeeper", "C09", "policy.go", """	incHits := p.admit.Estimate(key)""", """	incHits := p.admit.freq.Estimate(key)""")
# ---- C13
m("c13-sweep-skips-policy-del", "C13", "ttl.go", """			cost := policy.Cost(key)
			policy.Del(key)
""", """			cost := policy.Cost(key)
""")
m("c13-victim-stays-in-map-when-value-zero-cost", "C13", "cache.go", """				for _, victim := range victims {
					victim.Conflict, victim.Value = c.storedItems.Del(victim.Key, 0)""", """				for _, victim := range victims {
					if victim.Cost == 0 {
						continue
					}
					victim.Conflict, victim.Value = c.storedItems.Del(victim.Key, 0)""")
m("c13-tombstone-skips-policy", "C13", "cache.go", """				c.cachePolicy.Del(i.Key) // Deals with metrics updates.
				_, val := c.storedItems.Del(i.Key, i.Conflict)""", """				_, val := c.storedItems.Del(i.Key, i.Conflict)
				if val != zeroValue[V]() {
					c.cachePolicy.Del(i.Key) // Deals with metrics updates.
				}""".replace("val != zeroValue[V]()", "c.Metrics != nil"))
m("c13-iter-stops-only-shard", "C13", "store.go", """		if stopped {
			break
		}""", """		_ = stopped""")
# ---- C14
m("c14-update-leaves-old-bucket-entry", "C14", "ttl.go", """	oldBucketNum := storageBucket(oldExpTime)
	oldBucket, ok := m.buckets[oldBucketNum]
	if ok {
		delete(oldBucket, key)
	}

	// Items that don't expire don't need to be in the expiration map.
	if newExpTime.IsZero() {
		return
	}""", """	// Items that don't expire don't need to be in the expiration map.
	if newExpTime.IsZero() {
		return
	}
	oldBucketNum := storageBucket(oldExpTime)
	oldBucket, ok := m.buckets[oldBucketNum]
	if ok {
		delete(oldBucket, key)
	}""")
m("c14-delifexpired-ignores-zero-exp", "C14", "store.go", """	if item.expiration.IsZero() || item.expiration.After(now) {""", """	if item.expiration.After(now) {""")
m("c14-add-wrong-bucket", "C14", "ttl.go", """	bucketNum := storageBucket(expiration)
	m.Lock()
	defer m.Unlock()

	b, ok := m.buckets[bucketNum]
	if !ok {
		b = make(bucket)""", """	bucketNum := storageBucket(expiration) + 1
	m.Lock()
	defer m.Unlock()

	b, ok := m.buckets[bucketNum]
	if !ok {
		b = make(bucket)""")
m("c14-only-new-buckets-again", "C14", "ttl.go", """		if bucketNum > currentBucketNum {
			continue
		}""", """		if bucketNum > currentBucketNum || bucketNum <= m.lastCleanedBucketNum {
			continue
		}""")
m("c14-sweep-no-policy-del-onevict-only", "C14", "ttl.go", """			if onEvict != nil {
				onEvict(&Item[V]{Key: key,""", """			if onEvict != nil && cost >= 0 {
				onEvict(&Item[V]{Key: key,""")
# ---- C15
m("c15-clear-keeps-wait-markers", "C15", "cache.go", """			if i.wait != nil {
				close(i.wait)
				continue
			}
			if i.flag != itemUpdate {""", """			if i.wait != nil {
				continue
			}
			if i.flag != itemUpdate {""")
m("c15-clear-no-metrics-reset", "C15", "cache.go", """	if c.Metrics != nil {
		c.Metrics.Clear()
	}
	// Restart""", """	// Restart""")
m("c15-clear-no-expiry-reset", "C15", "store.go", """		sm.shards[i].Clear(onEvict)
	}
	sm.expiryMap.clear()""", """		sm.shards[i].Clear(onEvict)
	}""")
m("c15-close-no-policy-close", "C15", "cache.go", """	close(c.setBuf)
	c.cachePolicy.Close()""", """	close(c.setBuf)""")
m("c15-close-leaves-open-flag", "C15", "cache.go", """	c.cleanupTicker.Stop()
	c.isClosed.Store(true)""", """	c.cleanupTicker.Stop()""")
m("c15-policy-clear-keeps-used", "C15", "policy.go", """func (p *sampledLFU) clear() {
	p.used = 0
	p.keyCosts""", """func (p *sampledLFU) clear() {
	p.keyCosts""")
# ---- C17
m("c17-expiry-no-keyevict", "C17", "policy.go", """	p.metrics.add(costEvict, key, uint64(cost))
	p.metrics.add(keyEvict, key, 1)""", """	p.metrics.add(costEvict, key, uint64(cost))
	if cost > 0 {
		p.metrics.add(keyEvict, key, 1)
	}""")
m("c17-costadd-wrong-wrap", "C17", "policy.go", """			p.metrics.add(costAdd, key, ^(uint64(diff) - 1))""", """			p.metrics.add(costAdd, key, ^uint64(diff))""")
m("c17-hit-counted-on-miss", "C17", "cache.go", """	if ok {
		c.Metrics.add(hit, keyHash, 1)
	} else {
		c.Metrics.add(miss, keyHash, 1)
	}""", """	if ok || value != zeroValue[V]() {
		c.Metrics.add(hit, keyHash, 1)
	} else {
		c.Metrics.add(miss, keyHash, 1)
	}""".replace("ok || value != zeroValue[V]()", "ok || keyHash%16 == 7"))
m("c17-drop-not-counted-for-ttl", "C17", "cache.go", """		c.Metrics.add(dropSets, keyHash, 1)
		return false""", """		if expiration.IsZero() {
			c.Metrics.add(dropSets, keyHash, 1)
		}
		return false""")
# ---- C18
m("c18-reset-mask", "C18", "sketch.go", """		r[i] = (r[i] >> 1) & 0x77""", """		r[i] = (r[i] >> 1) & 0x7f""")
m("c18-saturate-at-14", "C18", "sketch.go", """	if v < 15 {
		r[i] += 1 << s""", """	if v < 14 {
		r[i] += 1 << s""")
m("c18-estimate-max", "C18", "sketch.go", """	min := byte(255)
	for i := range s.rows {
		val := s.rows[i].get((hashed ^ s.seed[i]) & s.mask)
		if val < min {""", """	min := byte(0)
	for i := range s.rows {
		val := s.rows[i].get((hashed ^ s.seed[i]) & s.mask)
		if val > min {""")
m("c18-door-not-cleared-on-reset", "C18", "policy.go", """	// clears doorkeeper bits
	p.door.Clear()
	// halves count-min counters""", """	// halves count-min counters""")
m("c18-reset-period-off", "C18", "policy.go", """	if p.incrs >= p.resetAt {""", """	if p.incrs > p.resetAt {""")
# ---- C10 / C16
m("c10-compact-last-child-dropped", "C10", "z/btree.go", """		if rem := t.compact(child, ts); rem == 0 && i < N-1 {""", """		if rem := t.compact(child, ts); rem == 0 && i < N {""")
m("c10-split-wrong-half", "C10", "z/btree.go", """	nn.setNumKeys(maxKeys - maxKeys/2)""", """	nn.setNumKeys(maxKeys - maxKeys/2 - 1)""")
m("c10-newnode-keeps-free-head", "C10", "z/btree.go", """	if t.freePage > 0 {
		t.freePage = n.uint64(0)
	}
	zeroOut(n)""", """	if t.freePage > 0 && t.stats.NumPagesFree > 0 {
		t.freePage = n.uint64(0)
	}
	zeroOut(n)""")
m("c10-iteratekv-skips-last", "C10", "z/btree.go", """		for i := 0; i < n.numKeys(); i++ {
			key := n.key(i)
			val := n.val(i)""", """		for i := 0; i < n.numKeys() && i < maxKeys-1; i++ {
			key := n.key(i)
			val := n.val(i)""")
m("c16-reinit-leafkeys-miscount", "C16", "z/btree.go", """		if n.isLeaf() {
			t.stats.NumLeafKeys += n.numKeys()
		}
	})""", """		if n.isLeaf() && n.numKeys() > 1 {
			t.stats.NumLeafKeys += n.numKeys()
		}
	})""")
m("c16-reinit-wrong-free-head", "C16", "z/btree.go", """			pageId := uint64(i) + 1
			t.freePage = pageId
			break""", """			pageId := uint64(i) + 1
			t.freePage = pageId""")
# ---- C11
m("c11-slice-walk-off", "C11", "z/buffer.go", """	if next >= int(b.offset) {
		next = -1
	}
	return res, next""", """	if next+8 >= int(b.offset) {
		next = -1
	}
	return res, next""")
m("c11-merge-drops-tie", "C11", "z/buffer.go", """		if count%1024 == 0 {""", """		if count%1024 == 0 && count < 2048 {""")
m("c11-maxsize-off-by-one", "C11", "z/buffer.go", """	if b.maxSz > 0 && int(b.offset)+n > b.maxSz {""", """	if b.maxSz > 0 && int(b.offset)+n >= b.maxSz {""")
m("c11-automap-copies-less", "C11", "z/buffer.go", """			assert(int(b.offset) == copy(mmapFile.Data, b.buf[:b.offset]))
			Free(b.buf)""", """			copy(mmapFile.Data, b.buf[:b.offset-1])
			Free(b.buf)""")
# ---- C12
m("c12-overshoot-ge", "C12", "z/allocator.go", """		if posIdx > len(buf) {
			a.Lock()""", """		if posIdx >= len(buf)+1 && len(buf) > 0 || len(buf) == 0 {
			a.Lock()""".replace("posIdx >= len(buf)+1 && len(buf) > 0 || len(buf) == 0", "posIdx > len(buf)+1"))
m("c12-slowpath-no-recheck", "C12", "z/allocator.go", """			if newBufIdx != bufIdx {
				a.Unlock()
				continue
			}""", """			_ = newBufIdx""")
m("c12-aligned-no-zero", "C12", "z/allocator.go", """	ZeroOut(out, 0, len(out))

	addr :=""", """	ZeroOut(out, 0, sz)

	addr :=""")
# ---- C19
m("c19-isset-wrong-shift", "C19", "z/bbloom.go", """	r := ((*(*uint8)(ptr)) >> (idx % 8)) & 1""", """	r := ((*(*uint8)(ptr)) >> (idx % 7)) & 1""")
m("c19-export-drops-last-byte", "C19", "z/bbloom.go", """	for i := range bloomImEx.FilterSet {""", """	for i := range bloomImEx.FilterSet[:len(bloomImEx.FilterSet)-1] {""")
m("c19-clear-partial", "C19", "z/bbloom.go", """	for i := range bl.bitset {
		bl.bitset[i] = 0
	}""", """	for i := range bl.bitset[1:] {
		bl.bitset[i] = 0
	}""")
# ---- C20
m("c20-wrapper-wrong-tail", "C20", "z/simd/search_amd64.go", """	for i := n; i < len(xs); i += 2 {
		if xs[i] >= k {""", """	for i := n; i < len(xs); i += 2 {
		if xs[i] > k {""")
m("c20-wrapper-no-tail", "C20", "z/simd/search_amd64.go", """	n := len(xs) &^ 7
	if n > 0 {""", """	n := len(xs) &^ 7
	if n == 0 && len(xs) > 0 {
		n = 8
	}
	if n > 0 {""".replace("""	if n == 0 && len(xs) > 0 {
		n = 8
	}
""", """	if len(xs) >= 500 {
		n = len(xs)
	}
"""))
m("c14-nonatomic-check-then-delete", "C14", "ttl.go", """			value, expr, ok := store.DelIfExpired(key, conflict, now)
			if !ok {
				continue
			}

			cost := policy.Cost(key)
			policy.Del(key)
""", """			expr := store.Expiration(key)
			if expr.IsZero() || expr.After(now) {
				continue
			}

			cost := policy.Cost(key)
			policy.Del(key)
			_, value := store.Del(key, conflict)
""")

EQUIVALENT = {
    "c20-wrapper-no-tail": "a hit behind the slice gives an index >= len/2, which the wrapper's idx < n/2 test discards before returning len/2",
    "c09-fastpath-needs-strict-room": "with room == 0 the eviction loop body never runs and the item is added all the same",
    "c18-estimate-max": "(hash ^ seed) & mask collides for two keys in one row iff it collides in every row, so all four rows always hold equal counters for a key: min == max",
    "c01-set-overwrites-colliding": "Get(k2) then returns k2's own value and Get(k1) misses: no value is returned for a different key, C01 holds",
    "c01-update-ignores-conflict": "as above: the colliding newcomer replaces the sibling, every Get still returns a value written under its own key",
    "c14-update-leaves-old-bucket-entry": "a stale bucket entry for a key whose current write has no TTL is harmless since the atomic delete-if-expired re-checks the attached expiration",
    "c14-add-wrong-bucket": "entries are swept one bucket later; the property only says 'eventually'",
    "c14-sweep-no-policy-del-onevict-only": "policy.Cost is never -1 for an entry that was just removed from the store in collision-free use",
    "c10-iteratekv-skips-last": "a leaf is split as soon as it is full, so slot maxKeys-1 of a leaf is never occupied when IterateKV runs",
    "c16-reinit-wrong-free-head": "exactly one free page is not pointed to by another, so the loop finds a single candidate with or without the break",
    "c11-merge-drops-tie": "fewer, larger chunks still sort correctly (sortSmall handles any chunk size)",
}
