#!/usr/bin/env python3
"""Writes /verif/SENSITIVITY.md from sens/results.json (hand-written mutants) and seeded/*/meta.json."""
import json, os, glob, sys
HERE = os.path.dirname(os.path.abspath(__file__))
sys.path.insert(0, HERE)
from mutants import M, EQUIVALENT
res = {r["name"]: r for r in json.load(open(os.path.join(HERE, "results.json")))}
out = ["# Sensitivity of the checks", "",
       "Two sources of deliberately broken trees, all applied to scratch copies of /repo (never committed there):",
       "", "1. **Seeded changes** written by independent sub-agents that were given only the text of one property and a scratch",
       "   worktree (`/verif/seeded/<id>/`: patch.diff, the agent's demonstration test, meta.json with what I re-ran).",
       "2. **Hand-written mutants** from DESIGN.md section 6 (`sens/mutants.py`, run by `sens/run_mutants.py`).", "",
       "A change counts as *caught* when the quick check of the property it breaks exits 1 with a VIOLATION line.", "",
       "## Seeded changes (independent)", "",
       "| id | property | what was changed | needs | demo fails with / passes without / suite passes | quick check | signature |", "|---|---|---|---|---|---|---|"]
for mp in sorted(glob.glob(os.path.join(os.path.dirname(HERE), "seeded", "*", "meta.json"))):
    m = json.load(open(mp))
    name = os.path.basename(os.path.dirname(mp))
    v = m.get("verified_by_me", {})
    prop = m.get("breaks_property")
    c = (m.get("checks_run_against_it") or {}).get(prop, {})
    status = {1: "**caught**", 0: "MISSED", None: "-"}.get(c.get("rc"), "inconclusive")
    sig = (c.get("signatures") or [""])[0].replace("signature=", "").split(" ")[0]
    out.append("| %s | %s | %s | %s | %s / %s / %s | %s (%ss) | %s |" % (
        name, prop, (m.get("what_changed") or "")[:160].replace("|", "/").replace("\n", " "),
        (m.get("needs_to_manifest") or "")[:140].replace("|", "/").replace("\n", " "),
        v.get("demo_fails_with_change"), v.get("demo_passes_without_change"), v.get("existing_suite_passes_with_change"),
        status, c.get("wall_s"), sig))
out += ["", "## Hand-written mutants", "", "| mutant | property | result | time | first signature |", "|---|---|---|---|---|"]
k = s = e = 0
for m in M:
    r = res.get(m["name"])
    if not r:
        continue
    st = r["status"]
    if m["name"] in EQUIVALENT:
        st = "equivalent (survives by design)"
        e += 1
    elif st == "killed":
        k += 1
    elif st == "SURVIVED":
        s += 1
    sig = (r.get("signatures") or [""])[0].replace("signature=", "").split(" ")[0]
    out.append("| %s | %s | %s | %s | %s |" % (m["name"], m["prop"], st, r.get("wall_s"), sig))
out += ["", "Killed %d, survived %d, equivalent %d (reasons below)." % (k, s, e), "", "### Equivalent mutants", ""]
for n, why in EQUIVALENT.items():
    out.append("* `%s`: %s" % (n, why))
open(os.path.join(os.path.dirname(HERE), "SENSITIVITY.md"), "w").write("\n".join(out) + "\n")
print("killed", k, "survived", s, "equivalent", e)
