#!/usr/bin/env python3
"""Sensitivity runner: applies each hand-written mutant (sens/mutants.py) to a scratch copy of /repo,
optionally runs the package's existing tests, runs the quick check of the mutant's property against the
copy (VERIF_REPO), records killed/survived, removes the copy.  usage: run_mutants.py [--tests] [--only substr] [--jobs N] [--also P1,P2]"""
HSNAP = None
import json, os, shutil, subprocess, sys, time
from concurrent.futures import ThreadPoolExecutor
HERE = os.path.dirname(os.path.abspath(__file__))
sys.path.insert(0, HERE)
from mutants import M
VERIF = os.path.dirname(HERE)
import tempfile
HSNAP = tempfile.mkdtemp(prefix="vf-harness-")
shutil.rmtree(HSNAP); shutil.copytree("/verif/harness", HSNAP)
args = sys.argv[1:]
with_tests = "--tests" in args
only = args[args.index("--only") + 1] if "--only" in args else None
jobs = int(args[args.index("--jobs") + 1]) if "--jobs" in args else 4
also = args[args.index("--also") + 1].split(",") if "--also" in args else []
env0 = dict(os.environ, GOFLAGS="-mod=mod", GOPROXY="off")

def one(m):
    d = "/tmp/vf-sens-" + m["name"]
    shutil.rmtree(d, ignore_errors=True)
    os.makedirs(d)
    subprocess.run("git -C /repo archive HEAD | tar -x -C " + d, shell=True, check=True)
    p = os.path.join(d, m["file"])
    s = open(p).read()
    assert s.count(m["old"]) == 1, m["name"]
    open(p, "w").write(s.replace(m["old"], m["new"]))
    res = dict(name=m["name"], prop=m["prop"], file=m["file"])
    try:
        b = subprocess.run(["go", "build", "./..."], cwd=d, env=env0, capture_output=True, text=True)
        if b.returncode != 0:
            res["status"] = "does-not-compile"
            res["detail"] = b.stderr[-400:]
            return res
        if with_tests:
            pkg = "./" + os.path.dirname(m["file"]) if os.path.dirname(m["file"]) else "."
            t = subprocess.run(["go", "test", "-vet=off", "-count=1", pkg], cwd=d, env=env0, capture_output=True, text=True)
            res["existing_tests_pass"] = t.returncode == 0
            if t.returncode != 0:
                res["status"] = "fails-existing-tests"
                res["detail"] = t.stdout[-600:]
                return res
        for prop in [m["prop"]] + also:
            env = dict(os.environ, VERIF_REPO=d, VERIF_WORK=d + ".work", VERIF_EVIDENCE_DIR=d + ".ev", VERIF_BUILD=d + ".build", VERIF_HARNESS=HSNAP)
            t0 = time.time()
            c = subprocess.run([os.path.join(VERIF, "check"), prop, "--tier", "quick"], cwd=VERIF, env=env, capture_output=True, text=True)
            wall = round(time.time() - t0, 1)
            sig = [l.strip() for l in c.stdout.splitlines() if l.strip().startswith("signature=")]
            key = "" if prop == m["prop"] else "_" + prop
            res["rc" + key] = c.returncode
            res["wall_s" + key] = wall
            res["signatures" + key] = [x[:160] for x in sig[:3]]
            if c.returncode not in (0, 1):
                res["detail" + key] = c.stdout[-500:]
        res["status"] = {0: "SURVIVED", 1: "killed"}.get(res["rc"], "inconclusive")
    finally:
        for x in (d, d + ".work", d + ".ev", d + ".build"):
            shutil.rmtree(x, ignore_errors=True)
    return res

ms = [m for m in M if not only or only in m["name"] or only == m["prop"]]
out = os.path.join(HERE, "results.json")
prev = {}
if os.path.exists(out):
    prev = {r["name"]: r for r in json.load(open(out))}
with ThreadPoolExecutor(max_workers=jobs) as ex:
    for r in ex.map(one, ms):
        prev[r["name"]] = r
        print(r["status"], r["name"], r.get("wall_s"), r.get("signatures"), r.get("detail", "")[:300].replace("\n", " | "), flush=True)
        json.dump(sorted(prev.values(), key=lambda r: r["name"]), open(out, "w"), indent=1)
