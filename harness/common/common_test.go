//go:build verif

package vfcommon

// Shared helpers of the verification harness (evidence counters, replay files,
// failure reporting). One copy of this file is compiled into each package under
// test; see /verif/DESIGN.md section 2.

import (
	"encoding/json"
	"fmt"
	"hash/fnv"
	"os"
	"path/filepath"
	"sort"
	"strconv"
	"strings"
	"sync"
	"testing"
)

type vfEvidence struct {
	mu          sync.Mutex
	id          string
	evaluations int
	classes     map[string]int
	excluded    map[string]int
	nontrivial  map[uint64]struct{}
	samples     []any
	ntSamples   int
	exhaustive  *bool
}

func vfNewEvidence(t *testing.T, id string) *vfEvidence {
	e := &vfEvidence{id: id, classes: map[string]int{}, excluded: map[string]int{}, nontrivial: map[uint64]struct{}{}}
	t.Cleanup(e.write)
	return e
}

// Case records one executed case. hash identifies the case (used for the
// distinct count when the case is non-trivial by the property's stated rule).
func (e *vfEvidence) Case(nontrivial bool, hash uint64, classes ...string) {
	e.mu.Lock()
	defer e.mu.Unlock()
	e.evaluations++
	for _, c := range classes {
		if c != "" {
			e.classes[c]++
		}
	}
	if nontrivial {
		e.classes["nontrivial"]++
		if len(e.nontrivial) < 2000000 {
			e.nontrivial[hash] = struct{}{}
		}
	}
}

func (e *vfEvidence) Class(name string, n int) {
	e.mu.Lock()
	e.classes[name] += n
	e.mu.Unlock()
}

func (e *vfEvidence) Excluded(name string) {
	e.mu.Lock()
	e.excluded[name]++
	e.mu.Unlock()
}

func (e *vfEvidence) SetExhaustive(b bool) {
	e.mu.Lock()
	e.exhaustive = &b
	e.mu.Unlock()
}

// Sample keeps a few rendered cases; non-trivial ones replace trivial ones.
func (e *vfEvidence) Sample(nontrivial bool, render func() any) {
	e.mu.Lock()
	defer e.mu.Unlock()
	const max = 4
	if nontrivial {
		if e.ntSamples >= max {
			return
		}
		v := render()
		if len(e.samples) >= max {
			e.samples[e.ntSamples] = v
		} else {
			e.samples = append(e.samples, v)
			// keep non-trivial ones in front
			copy(e.samples[e.ntSamples+1:], e.samples[e.ntSamples:len(e.samples)-1])
			e.samples[e.ntSamples] = v
		}
		e.ntSamples++
		return
	}
	if len(e.samples) < max {
		e.samples = append(e.samples, render())
	}
}

func (e *vfEvidence) write() {
	out := os.Getenv("VERIF_EVIDENCE_OUT")
	if out == "" {
		return
	}
	e.mu.Lock()
	defer e.mu.Unlock()
	hs := make([]string, 0, len(e.nontrivial))
	for h := range e.nontrivial {
		hs = append(hs, strconv.FormatUint(h, 16))
	}
	sort.Strings(hs)
	doc := map[string]any{
		"property_id":       e.id,
		"evaluations":       e.evaluations,
		"classes":           e.classes,
		"excluded":          e.excluded,
		"nontrivial_hashes": hs,
		"samples":           e.samples,
	}
	if e.exhaustive != nil {
		doc["exhaustive"] = *e.exhaustive
	}
	b, err := json.Marshal(doc)
	if err != nil {
		b, _ = json.Marshal(map[string]any{"property_id": e.id, "evaluations": e.evaluations, "classes": e.classes,
			"nontrivial_hashes": hs, "samples": []any{fmt.Sprint(e.samples)}})
	}
	_ = os.WriteFile(out, b, 0o644)
}

func vfHash(parts ...any) uint64 {
	h := fnv.New64a()
	for _, p := range parts {
		fmt.Fprint(h, p)
		h.Write([]byte{0})
	}
	return h.Sum64()
}

type vfHasher struct{ h uint64 }

func vfNewHasher() *vfHasher { return &vfHasher{h: 14695981039346656037} }
func (h *vfHasher) Add(v uint64) {
	for i := 0; i < 8; i++ {
		h.h ^= v & 0xff
		h.h *= 1099511628211
		v >>= 8
	}
}
func (h *vfHasher) Sum() uint64 { return h.h }

var vfFailMu sync.Mutex
var vfFailSeq int

// vfFail writes the replay file for a failing case and prints the verdict line
// the driver looks for. It returns the message; the caller fails the test with it.
func vfFail(id, stage, signature string, replayCase any, format string, args ...any) string {
	msg := fmt.Sprintf(format, args...)
	vfFailMu.Lock()
	defer vfFailMu.Unlock()
	dir := os.Getenv("VERIF_REPLAY_DIR")
	if dir == "" {
		dir = os.TempDir()
	}
	path := filepath.Join(dir, id+"-"+stage+"-latest.json")
	doc := map[string]any{"property": id, "stage": stage, "signature": signature, "message": msg, "case": replayCase}
	b, err := json.MarshalIndent(doc, "", " ")
	if err != nil {
		b, _ = json.MarshalIndent(map[string]any{"property": id, "stage": stage, "signature": signature, "message": msg,
			"case": fmt.Sprintf("%+v", replayCase)}, "", " ")
	}
	_ = os.WriteFile(path, b, 0o644)
	one := strings.ReplaceAll(msg, "\n", " | ")
	if len(one) > 600 {
		one = one[:600] + "..."
	}
	fmt.Printf("\nVF-FAIL property=%s signature=%s replay=%s msg=%s\n", id, signature, path, one)
	// The returned text is what rapid compares between runs while shrinking, so it
	// must not contain anything that depends on map iteration order or timing: only
	// the signature. The details are in the VF-FAIL line and in the replay file.
	return "violation " + signature + " (details: VF-FAIL line above and " + path + ")"
}

// vfKnown reports whether a signature is listed as an open finding
// (KNOWN_FINDINGS.txt, passed by the driver). Generators use it to exclude the
// scenario class by construction after the directed reproduction ran.
func vfKnown(sig string) bool {
	for _, s := range strings.Split(os.Getenv("VERIF_KNOWN"), ";") {
		if s == sig && s != "" {
			return true
		}
	}
	return false
}

func vfTier() string {
	if os.Getenv("VERIF_TIER") == "thorough" {
		return "thorough"
	}
	return "quick"
}

func vfEnvInt(name string, def int) int {
	if v, err := strconv.Atoi(os.Getenv(name)); err == nil {
		return v
	}
	return def
}

// vfLoadReplay reads the "case" member of a replay file into v.
func vfLoadReplay(t *testing.T, v any) bool {
	path := os.Getenv("VERIF_REPLAY_FILE")
	if path == "" {
		t.Skip("no VERIF_REPLAY_FILE")
		return false
	}
	b, err := os.ReadFile(path)
	if err != nil {
		t.Fatalf("replay file: %v", err)
	}
	var doc struct {
		Case json.RawMessage `json:"case"`
	}
	if err := json.Unmarshal(b, &doc); err != nil {
		t.Fatalf("replay file: %v", err)
	}
	if err := json.Unmarshal(doc.Case, v); err != nil {
		t.Fatalf("replay file case: %v", err)
	}
	return true
}
