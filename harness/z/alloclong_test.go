//go:build verif

package z

// C12 over long allocation histories: far more requests (or bytes) since the last Reset than any case of the other
// stages makes, so that the chunk table - 64 slots, sizes doubling - is walked further. Cheap on purpose: each slice
// gets a marker in its first and last byte only; at the end the markers are read back and the address ranges are
// sorted and checked for overlap; a Reset and a replay of the same requests must not acquire memory.

import (
	"fmt"
	"sort"
	"testing"
	"unsafe"

	"pgregory.net/rapid"
)

type vfAllocLongCase struct {
	InitSize int    `json:"init_size"`
	N        int    `json:"requests"`
	Size     int    `json:"size"`
	Kind     string `json:"kind"` // alloc | aligned | copy
	Replay   bool   `json:"reset_and_replay"`
}

func vfRunAllocLong(c *vfAllocLongCase) (chunks int, sig, msg string) {
	defer func() {
		if p := recover(); p != nil {
			sig, msg = "C12/panic/long", fmt.Sprintf("panic after a long history: %v", p)
		}
	}()
	a := NewAllocator(c.InitSize, "vf")
	defer a.Release()
	pass := func(tag string) (string, string) {
		type iv struct{ lo, hi uintptr }
		ivs := make([]iv, 0, c.N)
		var src []byte
		if c.Kind == "copy" {
			src = make([]byte, c.Size)
		}
		slices := make([][]byte, 0, c.N)
		for i := 0; i < c.N; i++ {
			var s []byte
			switch c.Kind {
			case "aligned":
				s = a.AllocateAligned(c.Size)
				if uintptr(unsafe.Pointer(&s[0]))%8 != 0 {
					return "C12/not-aligned/long", fmt.Sprintf("%s: request %d of %d: address %#x", tag, i, c.N, uintptr(unsafe.Pointer(&s[0])))
				}
			case "copy":
				s = a.Copy(src)
			default:
				s = a.Allocate(c.Size)
			}
			if len(s) != c.Size {
				return "C12/wrong-length/long", fmt.Sprintf("%s: request %d of %d for %d bytes returned %d", tag, i, c.N, c.Size, len(s))
			}
			s[0], s[len(s)-1] = byte(i), byte(i>>8)
			slices = append(slices, s)
			lo := uintptr(unsafe.Pointer(&s[0]))
			ivs = append(ivs, iv{lo, lo + uintptr(len(s))})
		}
		for i, s := range slices {
			if c.Size >= 2 && (s[0] != byte(i) || s[len(s)-1] != byte(i>>8)) {
				return "C12/overwritten/long", fmt.Sprintf("%s: slice %d of %d was overwritten by a later allocation", tag, i, c.N)
			}
		}
		sort.Slice(ivs, func(i, j int) bool { return ivs[i].lo < ivs[j].lo })
		for i := 1; i < len(ivs); i++ {
			if ivs[i].lo < ivs[i-1].hi {
				return "C12/overlap/long", fmt.Sprintf("%s: two of %d slices overlap at %#x", tag, c.N, ivs[i].lo)
			}
		}
		return "", ""
	}
	if s, m := pass("first pass"); s != "" {
		return 0, s, m
	}
	chunks = len(a.buffers)
	for chunks > 0 && len(a.buffers[chunks-1]) == 0 {
		chunks--
	}
	if c.Replay {
		before := a.Allocated()
		a.Reset()
		if s, m := pass("replay after Reset"); s != "" {
			return chunks, s, m
		}
		if after := a.Allocated(); after != before {
			return chunks, "C12/replay-acquired-memory/long", fmt.Sprintf("replaying %d requests after Reset changed Allocated() %d -> %d", c.N, before, after)
		}
	}
	return chunks, "", ""
}

func TestVf_C12_Long(t *testing.T) {
	ev := vfNewEvidence(t, "C12")
	rapid.Check(t, func(rt *rapid.T) {
		c := &vfAllocLongCase{InitSize: rapid.SampledFrom([]int{0, 512, 1024, 4096}).Draw(rt, "init"),
			Kind: rapid.SampledFrom([]string{"alloc", "alloc", "aligned", "copy"}).Draw(rt, "kind"), Replay: rapid.Bool().Draw(rt, "replay")}
		switch rapid.IntRange(0, 2).Draw(rt, "shape") {
		case 0: // many small requests: 40..160 MiB in all
			c.Size = rapid.SampledFrom([]int{4096, 4097, 16384}).Draw(rt, "size")
			c.N = rapid.IntRange(10000, 40000).Draw(rt, "n") * 4096 / c.Size
		case 1: // requests above half a MiB
			c.Size = rapid.SampledFrom([]int{520 << 10, 600000, 1 << 20}).Draw(rt, "size")
			c.N = rapid.IntRange(60, 120).Draw(rt, "n")
		default: // very many tiny ones
			c.Size = rapid.IntRange(1, 64).Draw(rt, "size")
			c.N = rapid.IntRange(100000, 400000).Draw(rt, "n")
		}
		chunks, sig, msg := vfRunAllocLong(c)
		if sig != "" {
			rt.Fatalf("%s", vfFail("C12", "long", sig, c, "%s", msg))
		}
		nt := chunks >= 12
		if nt {
			ev.Class("long:>=12-chunks", 1)
		}
		ev.Case(nt, vfHash(c.InitSize, c.N, c.Size, c.Kind, c.Replay), "long-case")
		ev.Sample(nt, func() any { return map[string]any{"long": c, "chunks": chunks} })
	})
}

func TestVfReplay_C12Long(t *testing.T) {
	var c vfAllocLongCase
	if !vfLoadReplay(t, &c) {
		return
	}
	if _, sig, msg := vfRunAllocLong(&c); sig != "" {
		t.Fatalf("%s", vfFail("C12", "long", sig, &c, "%s", msg))
	}
}
