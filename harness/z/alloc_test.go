//go:build verif

package z

// E6: z.Allocator (property C12): sequential model-based histories and concurrent programs.

import (
	"fmt"
	"runtime"
	"sort"
	"sync"
	"sync/atomic"
	"testing"
	"unsafe"

	"pgregory.net/rapid"
)

type vfAllocOp struct {
	Kind string `json:"kind"` // alloc aligned copy reset trimreset resetreplay
	N    int    `json:"n,omitempty"`
	M    int    `json:"m,omitempty"` // trimreset: TrimTo argument
}

type vfAllocCase struct {
	InitSize int         `json:"init_size"`
	Ops      []vfAllocOp `json:"ops"`
}

type vfLive struct {
	id      int
	s       []byte
	aligned bool
}

func vfPat(id, i int) byte { return byte(id*131 + i*7 + 1) }

func vfFill(l *vfLive) {
	for i := range l.s {
		l.s[i] = vfPat(l.id, i)
	}
}

func vfVerifyLive(live []*vfLive) (sig, msg string) {
	type iv struct {
		lo, hi uintptr
		id     int
	}
	var ivs []iv
	for _, l := range live {
		for i := range l.s {
			if l.s[i] != vfPat(l.id, i) {
				return "C12/overwritten", fmt.Sprintf("slice #%d (len %d) was overwritten or moved: byte %d is %#x, written %#x", l.id, len(l.s), i, l.s[i], vfPat(l.id, i))
			}
		}
		if len(l.s) > 0 {
			lo := uintptr(unsafe.Pointer(&l.s[0]))
			ivs = append(ivs, iv{lo, lo + uintptr(len(l.s)), l.id})
		}
	}
	sort.Slice(ivs, func(i, j int) bool { return ivs[i].lo < ivs[j].lo })
	for i := 1; i < len(ivs); i++ {
		if ivs[i].lo < ivs[i-1].hi {
			return "C12/overlap", fmt.Sprintf("slices #%d [%#x,%#x) and #%d [%#x,%#x) overlap", ivs[i-1].id, ivs[i-1].lo, ivs[i-1].hi, ivs[i].id, ivs[i].lo, ivs[i].hi)
		}
	}
	return "", ""
}

type vfAllocRun struct {
	c            *vfAllocCase
	a            *Allocator
	live         []*vfLive
	sinceReset   []vfAllocOp // requests since the last Reset
	trimmed      bool        // a TrimTo happened since the first pass
	nextID       int
	chunkSwitch  int
	replays      int
	trims        int
	executed     int
	dirtyReset   bool // AllocateAligned after the arena was dirtied and Reset
	hadReset     bool
	straddles    int
	bigger       int
	alignedAfter int
}

func (r *vfAllocRun) curChunk() (idx, pos, length int) {
	bi, pi := parse(atomic.LoadUint64(&r.a.compIdx))
	return bi, pi, len(r.a.buffers[bi])
}

func (r *vfAllocRun) request(op *vfAllocOp) (sig, msg string) {
	a := r.a
	bi0, _, _ := r.curChunk()
	l := &vfLive{id: r.nextID}
	r.nextID++
	switch op.Kind {
	case "alloc":
		l.s = a.Allocate(op.N)
	case "aligned":
		l.s = a.AllocateAligned(op.N)
		l.aligned = true
		if len(l.s) > 0 && uintptr(unsafe.Pointer(&l.s[0]))%8 != 0 {
			return "C12/not-aligned", fmt.Sprintf("AllocateAligned(%d) returned address %#x", op.N, uintptr(unsafe.Pointer(&l.s[0])))
		}
		for i := range l.s {
			if l.s[i] != 0 {
				return "C12/not-zeroed", fmt.Sprintf("AllocateAligned(%d): byte %d is %#x (reset before: %v)", op.N, i, l.s[i], r.hadReset)
			}
		}
		if r.hadReset {
			r.dirtyReset = true
		}
	case "copy":
		src := make([]byte, op.N)
		for i := range src {
			src[i] = vfPat(l.id, i)
		}
		l.s = a.Copy(src)
		if len(l.s) != len(src) {
			return "C12/wrong-length", fmt.Sprintf("Copy of %d bytes returned %d bytes", len(src), len(l.s))
		}
		for i := range src {
			if l.s[i] != src[i] {
				return "C12/copy-differs", fmt.Sprintf("Copy of %d bytes differs at %d", len(src), i)
			}
		}
		if len(src) > 0 && &l.s[0] == &src[0] {
			return "C12/copy-differs", "Copy returned its argument"
		}
	}
	if len(l.s) != op.N {
		return "C12/wrong-length", fmt.Sprintf("%s(%d) returned %d bytes", op.Kind, op.N, len(l.s))
	}
	vfFill(l)
	r.live = append(r.live, l)
	if bi1, _, _ := r.curChunk(); bi1 != bi0 {
		r.chunkSwitch += bi1 - bi0
	}
	return "", ""
}

func (r *vfAllocRun) apply(op *vfAllocOp) (sig, msg string) {
	switch op.Kind {
	case "alloc", "aligned", "copy":
		r.sinceReset = append(r.sinceReset, *op)
		return r.request(op)
	case "reset", "trimreset", "resetreplay":
		if s, m := vfVerifyLive(r.live); s != "" {
			return s, "before Reset: " + m
		}
		before := r.a.Allocated()
		if op.Kind == "trimreset" {
			r.a.TrimTo(op.M)
			r.trimmed = true
			r.trims++
		}
		r.a.Reset()
		r.hadReset = true
		r.live = nil
		if op.Kind == "resetreplay" {
			reqs := r.sinceReset
			r.sinceReset = nil
			for i := range reqs {
				r.sinceReset = append(r.sinceReset, reqs[i])
				if s, m := r.request(&reqs[i]); s != "" {
					return s, "replay after Reset: " + m
				}
			}
			r.replays++
			if after := r.a.Allocated(); after != before && !r.trimmed {
				return "C12/replay-acquired-memory", fmt.Sprintf("replaying %d requests after Reset changed Allocated() %d -> %d", len(reqs), before, after)
			}
			return vfVerifyLive(r.live)
		}
		r.sinceReset = nil
		if op.Kind == "reset" && !r.trimmed {
			// a plain Reset starts a new first pass for the replay law only if the chunks are
			// those of the previous pass; requests differ, so nothing is asserted on Allocated here.
		}
	}
	return "", ""
}

func vfGenAllocOp(t *rapid.T, r *vfAllocRun) *vfAllocOp {
	w := rapid.IntRange(0, 99).Draw(t, "op")
	if w >= 80 {
		switch {
		case w < 87:
			return &vfAllocOp{Kind: "resetreplay"}
		case w < 98:
			return &vfAllocOp{Kind: "reset"}
		default:
			first := len(r.a.buffers[0])
			return &vfAllocOp{Kind: "trimreset", M: first + 1 + rapid.IntRange(0, 3*first).Draw(t, "m")}
		}
	}
	kind := "alloc"
	if w >= 45 && w < 65 {
		kind = "aligned"
	} else if w >= 65 {
		kind = "copy"
	}
	_, pos, length := r.curChunk()
	rem := length - pos
	if rem < 0 {
		rem = 0
	}
	var n int
	switch rapid.IntRange(0, 11).Draw(t, "szmode") {
	case 0:
		n = 0
	case 1:
		n = rem - 1
	case 2:
		n = rem
	case 3:
		n = rem + 1
	case 4:
		n = 2*length + 1
	case 5:
		n = rapid.IntRange(1, 1<<20).Draw(t, "n")
	case 6:
		n = rem - 8 + rapid.IntRange(0, 16).Draw(t, "n")
	case 7:
		n = rapid.IntRange(100, 600).Draw(t, "n")
	default:
		n = rapid.IntRange(1, 64).Draw(t, "n")
	}
	if n > 1<<20 {
		// sizes above 1 MiB add nothing but memory pressure (and > 1 GiB is a documented panic)
		n = 1 << 20
	}
	if length >= 8<<20 {
		n = rapid.IntRange(1, 64).Draw(t, "nsmall")
	}
	if n < 0 {
		n = 0
	}
	if kind == "aligned" && n == 0 {
		n = 1
	}
	if n > rem {
		r.straddles++
	}
	if n > 2*length {
		r.bigger++
	}
	return &vfAllocOp{Kind: kind, N: n}
}

func vfRunAllocCase(c *vfAllocCase, next func(r *vfAllocRun) *vfAllocOp) (r *vfAllocRun, sig, msg string) {
	r = &vfAllocRun{c: c}
	defer func() {
		if r.a != nil {
			r.a.Release()
		}
	}()
	// only the code under test runs under recover: the generator's own panics (rapid signals an
	// exhausted bit stream that way while shrinking) must pass through
	guarded := func(f func() (string, string)) (s, m string) {
		defer func() {
			if p := recover(); p != nil {
				s, m = "C12/panic", fmt.Sprintf("panic: %v", p)
			}
		}()
		return f()
	}
	if s, m := guarded(func() (string, string) { r.a = NewAllocator(c.InitSize, "vf"); return "", "" }); s != "" {
		return r, s, m
	}
	for {
		op := next(r)
		if op == nil {
			break
		}
		r.executed++
		if s, m := guarded(func() (string, string) { return r.apply(op) }); s != "" {
			return r, s, m
		}
	}
	if s, m := guarded(func() (string, string) { return vfVerifyLive(r.live) }); s != "" {
		return r, s, "at the end: " + m
	}
	return r, "", ""
}

func TestVf_C12_Seq(t *testing.T) {
	ev := vfNewEvidence(t, "C12")
	rapid.Check(t, func(t *rapid.T) {
		c := &vfAllocCase{}
		switch rapid.IntRange(0, 3).Draw(t, "initmode") {
		case 0:
			c.InitSize = rapid.IntRange(0, 8192).Draw(t, "init")
		case 1:
			c.InitSize = rapid.SampledFrom([]int{0, 1, 511, 512, 513, 1024, 1025, 4096}).Draw(t, "init")
		default:
			c.InitSize = rapid.IntRange(0, 600).Draw(t, "init")
		}
		nops := rapid.IntRange(1, 60).Draw(t, "nops")
		r, sig, msg := vfRunAllocCase(c, func(r *vfAllocRun) *vfAllocOp {
			if len(c.Ops) >= nops {
				return nil
			}
			op := vfGenAllocOp(t, r)
			c.Ops = append(c.Ops, *op)
			return op
		})
		if sig != "" {
			cc := *c
			cc.Ops = cc.Ops[:r.executed]
			t.Fatalf("%s", vfFail("C12", "seq", sig, &cc, "%s", msg))
		}
		nt := r.chunkSwitch >= 2
		h := vfNewHasher()
		h.Add(uint64(c.InitSize))
		for _, op := range c.Ops {
			h.Add(vfHash(op.Kind))
			h.Add(uint64(op.N))
			h.Add(uint64(op.M))
		}
		cl := []string{"sequential"}
		if r.chunkSwitch >= 2 {
			cl = append(cl, "seq:>=2-chunk-switches")
		}
		if r.replays > 0 && !r.trimmed {
			cl = append(cl, "seq:replay-law-asserted")
		}
		if r.replays > 0 {
			cl = append(cl, "seq:reset-replay")
		}
		if r.trims > 0 {
			cl = append(cl, "seq:trim-reset")
		}
		if r.dirtyReset {
			cl = append(cl, "seq:aligned-after-dirty-reset")
		}
		if r.straddles > 0 {
			cl = append(cl, "seq:request-straddles-chunk-end")
		}
		if r.bigger > 0 {
			cl = append(cl, "seq:request-bigger-than-next-chunk")
		}
		ev.Case(nt, h.Sum(), cl...)
		ev.Sample(nt, func() any { return c })
	})
}

func TestVfReplay_C12(t *testing.T) {
	var raw struct {
		InitSize int           `json:"init_size"`
		Ops      []vfAllocOp   `json:"ops"`
		Progs    [][]vfAllocOp `json:"progs"`
		Procs    int           `json:"procs"`
		Warmup   []int         `json:"warmup"`
	}
	if !vfLoadReplay(t, &raw) {
		return
	}
	if raw.Progs != nil {
		c := &vfAllocConc{InitSize: raw.InitSize, Progs: raw.Progs, Procs: raw.Procs, Warmup: raw.Warmup}
		for i := 0; i < 200; i++ {
			if _, sig, msg := vfRunAllocConc(c); sig != "" {
				t.Fatalf("%s", vfFail("C12", "replay", sig, c, "%s", msg))
			}
		}
		return
	}
	c := &vfAllocCase{InitSize: raw.InitSize, Ops: raw.Ops}
	i := 0
	if _, sig, msg := vfRunAllocCase(c, func(r *vfAllocRun) *vfAllocOp {
		if i >= len(c.Ops) {
			return nil
		}
		i++
		return &c.Ops[i-1]
	}); sig != "" {
		t.Fatalf("%s", vfFail("C12", "replay", sig, c, "%s", msg))
	}
}

// ---- concurrent -------------------------------------------------------------

type vfAllocConc struct {
	Warmup   []int         `json:"warmup,omitempty"` // sequential allocations, then Reset, before the goroutines start (a recycled allocator)
	InitSize int           `json:"init_size"`
	Procs    int           `json:"procs"`
	Progs    [][]vfAllocOp `json:"progs"`
}

type vfConcStats struct {
	chunkSwitches int
	crossings     int // chunk switches at which >= 2 overlapping calls of different goroutines were the first to land in the new chunk
}

type vfConcRec struct {
	l        *vfLive
	g        int
	inv, res uint64
	chunk    int
}

func vfRunAllocConc(c *vfAllocConc) (st vfConcStats, sig, msg string) {
	if c.Procs > 0 {
		defer runtime.GOMAXPROCS(runtime.GOMAXPROCS(c.Procs))
	}
	a := NewAllocator(c.InitSize, "vfc")
	defer a.Release()
	if len(c.Warmup) > 0 {
		for _, n := range c.Warmup {
			b := a.Allocate(n)
			for i := range b {
				b[i] = 0xEE
			}
		}
		a.Reset()
	}
	var clock uint64
	var wg sync.WaitGroup
	recs := make([][]vfConcRec, len(c.Progs))
	errs := make([]string, len(c.Progs))
	start := make(chan struct{})
	for g := range c.Progs {
		wg.Add(1)
		go func(g int) {
			defer wg.Done()
			defer func() {
				if p := recover(); p != nil {
					errs[g] = fmt.Sprintf("panic in goroutine %d: %v", g, p)
				}
			}()
			<-start
			for i, op := range c.Progs[g] {
				l := &vfLive{id: g*100000 + i}
				inv := atomic.AddUint64(&clock, 1)
				switch op.Kind {
				case "aligned":
					l.s = a.AllocateAligned(op.N)
					l.aligned = true
				case "copy":
					src := make([]byte, op.N)
					for j := range src {
						src[j] = vfPat(l.id, j)
					}
					l.s = a.Copy(src)
				default:
					l.s = a.Allocate(op.N)
				}
				res := atomic.AddUint64(&clock, 1)
				if len(l.s) != op.N {
					errs[g] = fmt.Sprintf("wrong-length: %s(%d) returned %d bytes", op.Kind, op.N, len(l.s))
					return
				}
				if l.aligned {
					if len(l.s) > 0 && uintptr(unsafe.Pointer(&l.s[0]))%8 != 0 {
						errs[g] = "not-aligned"
						return
					}
					for j := range l.s {
						if l.s[j] != 0 {
							errs[g] = fmt.Sprintf("not-zeroed: AllocateAligned(%d) byte %d = %#x", op.N, j, l.s[j])
							return
						}
					}
				}
				vfFill(l)
				recs[g] = append(recs[g], vfConcRec{l: l, g: g, inv: inv, res: res})
			}
		}(g)
	}
	close(start)
	wg.Wait()
	for _, e := range errs {
		if e != "" {
			cls := "panic"
			for _, k := range []string{"wrong-length", "not-aligned", "not-zeroed"} {
				if len(e) >= len(k) && e[:len(k)] == k {
					cls = k
				}
			}
			return st, "C12/conc/" + cls, e
		}
	}
	var live []*vfLive
	var all []vfConcRec
	for g := range recs {
		for _, rc := range recs[g] {
			live = append(live, rc.l)
			all = append(all, rc)
		}
	}
	if s, m := vfVerifyLive(live); s != "" {
		return st, "C12/conc/" + s[4:], m
	}
	// statistics: which chunk does each slice live in
	bi, _ := parse(atomic.LoadUint64(&a.compIdx))
	st.chunkSwitches = bi
	type span struct{ lo, hi uintptr }
	var chunks []span
	for _, b := range a.buffers {
		if len(b) == 0 {
			break
		}
		lo := uintptr(unsafe.Pointer(&b[0]))
		chunks = append(chunks, span{lo, lo + uintptr(len(b))})
	}
	firstRes := map[int]uint64{}
	for i := range all {
		if len(all[i].l.s) == 0 {
			all[i].chunk = -1
			continue
		}
		p := uintptr(unsafe.Pointer(&all[i].l.s[0]))
		all[i].chunk = -2
		for ci, sp := range chunks {
			if p >= sp.lo && p < sp.hi {
				all[i].chunk = ci
			}
		}
		if all[i].chunk == -2 {
			return st, "C12/conc/outside-arena", fmt.Sprintf("slice #%d is in none of the allocator's chunks", all[i].l.id)
		}
		if fr, ok := firstRes[all[i].chunk]; !ok || all[i].res < fr {
			firstRes[all[i].chunk] = all[i].res
		}
	}
	for ci := 1; ci < len(chunks); ci++ {
		gs := map[int]bool{}
		for _, rc := range all {
			if rc.chunk == ci && rc.inv < firstRes[ci] {
				gs[rc.g] = true
			}
		}
		if len(gs) >= 2 {
			st.crossings++
		}
	}
	return st, "", ""
}

func TestVf_C12_Conc(t *testing.T) {
	ev := vfNewEvidence(t, "C12")
	rapid.Check(t, func(t *rapid.T) {
		c := &vfAllocConc{InitSize: rapid.SampledFrom([]int{512, 512, 512, 1024, 4096}).Draw(t, "init")}
		c.Procs = rapid.SampledFrom([]int{2, 4, 8, 16}).Draw(t, "procs")
		if rapid.Bool().Draw(t, "recycled") {
			for i, n := 0, rapid.IntRange(2, 12).Draw(t, "nwarm"); i < n; i++ {
				c.Warmup = append(c.Warmup, rapid.IntRange(100, 3000).Draw(t, "warm"))
			}
		}
		g := rapid.IntRange(2, 32).Draw(t, "goroutines")
		for i := 0; i < g; i++ {
			n := rapid.IntRange(1, 40).Draw(t, "len")
			var prog []vfAllocOp
			for j := 0; j < n; j++ {
				kind := rapid.SampledFrom([]string{"alloc", "alloc", "alloc", "aligned", "copy"}).Draw(t, "kind")
				var sz int
				switch rapid.IntRange(0, 9).Draw(t, "szmode") {
				case 0:
					sz = rapid.IntRange(1, 16).Draw(t, "n")
				case 1:
					sz = rapid.IntRange(600, 5000).Draw(t, "n")
				case 2:
					sz = 0
				default:
					sz = rapid.IntRange(100, 600).Draw(t, "n")
				}
				if kind == "aligned" && sz == 0 {
					sz = 8
				}
				prog = append(prog, vfAllocOp{Kind: kind, N: sz})
			}
			c.Progs = append(c.Progs, prog)
		}
		reps := 3
		var st vfConcStats
		for i := 0; i < reps; i++ {
			s, sig, msg := vfRunAllocConc(c)
			if sig != "" {
				t.Fatalf("%s", vfFail("C12", "conc", sig, c, "%s", msg))
			}
			if s.crossings > st.crossings {
				st.crossings = s.crossings
			}
			if s.chunkSwitches > st.chunkSwitches {
				st.chunkSwitches = s.chunkSwitches
			}
		}
		nt := st.chunkSwitches >= 2 && st.crossings >= 1
		h := vfNewHasher()
		h.Add(uint64(c.InitSize))
		for _, p := range c.Progs {
			h.Add(uint64(len(p)))
			for _, op := range p {
				h.Add(vfHash(op.Kind))
				h.Add(uint64(op.N))
			}
		}
		cl := []string{"concurrent", fmt.Sprintf("conc:goroutines=%d-%d", (g/8)*8, (g/8)*8+7)}
		if len(c.Warmup) > 0 {
			cl = append(cl, "conc:recycled-allocator(grown,Reset)")
		}
		if st.chunkSwitches >= 2 {
			cl = append(cl, "conc:>=2-chunk-switches")
		}
		if st.crossings >= 1 {
			cl = append(cl, "conc:>=2-goroutines-crossed-the-same-chunk-end-together")
		}
		ev.Case(nt, h.Sum(), cl...)
		ev.Sample(nt, func() any {
			progs := c.Progs
			if len(progs) > 3 {
				progs = progs[:3]
			}
			return map[string]any{"init_size": c.InitSize, "gomaxprocs": c.Procs, "goroutines": len(c.Progs), "first_programs": progs}
		})
	})
}
