//go:build verif

package z

// E4: model-based state machine on z.Tree (properties C10 and C16).

import (
	"fmt"
	"math"
	"os"
	"path/filepath"
	"runtime/debug"
	"sort"
	"testing"

	"pgregory.net/rapid"
)

type vfTreeOp struct {
	Kind string `json:"kind"` // set get delbelow iter rewrite reset reopen bulk
	K    uint64 `json:"k,omitempty"`
	V    uint64 `json:"v,omitempty"`
	// rewrite rule: "add" (v+C), "const" (C), "ifbelow" (v<Th -> C), "keyed" (k%2==0 -> C)
	Rule string `json:"rule,omitempty"`
	C    uint64 `json:"c,omitempty"`
	Th   uint64 `json:"th,omitempty"`
	N    int    `json:"n,omitempty"` // bulk: number of keys (start K, stride C, value V)
	Desc bool   `json:"desc,omitempty"`
	Sq   int    `json:"sq,omitempty"` // squeeze mode: pages that still fit before the buffer must be reallocated
}

type vfTreeCase struct {
	// Squeeze: before every Set the in-memory buffer is trimmed to exactly its used size, so that the
	// next page allocation has to grow (reallocate) the backing buffer - "growth of the backing
	// buffer" at every possible point instead of only at 3 MiB, 6 MiB, ...
	Squeeze    bool       `json:"squeeze,omitempty"`
	MaxKeys    int        `json:"max_keys"`
	Persistent bool       `json:"persistent"`
	Ops        []vfTreeOp `json:"ops"`
}

type vfTreeRun struct {
	c        *vfTreeCase
	tree     *Tree
	path     string
	model    map[uint64]uint64
	everUsed map[uint64]struct{}
	// statistics for the evidence
	maxLevels           int
	maxPages            int
	delPartial          bool // a DeleteBelow removed >=1 and kept >=1 key
	recycled            bool // a page went to the free list
	reused              bool // ... and a later Set took a page from the free list
	reopens             int
	reopenWithFree      int // reopen with >= 2 free pages
	reuseAfterOpen      bool
	sawReopen           bool
	grew                bool
	filledExactly       int // fill-to plans that stopped exactly at the requested page count
	filledExactMultiple int // ... of a mapping whose usable part is an exact multiple of the page size
	fileGrew            int // persistent: bulk inserts after which the file is larger than its initial 1 MiB
	squeezed            int
	grewOnAlloc         int  // Sets that allocated a page right after the buffer was trimmed (reallocation during the Set)
	hitMaxKeyDel        bool // a DeleteBelow had to delete the largest key of some leaf
	executed            int
}

const vfMaxLegalKey = uint64(math.MaxUint64 - 1)

func vfSetPageSize(mk int) (restore func()) {
	ops, omk := pageSize, maxKeys
	maxKeys = mk
	pageSize = 16 * (mk + 1)
	return func() { pageSize, maxKeys = ops, omk }
}

// vfForeign marks a failure that belongs to another property's check (a map defect on a file-backed tree that
// was never reopened is C10's, not C16's).
type vfForeign struct{ sig string }

func (f *vfForeign) Error() string { return "foreign: " + f.sig }

func (r *vfTreeRun) fail(id, sig, format string, args ...any) error {
	if r.c.Persistent && !r.sawReopen {
		return &vfForeign{sig: sig}
	}
	stage := "tree"
	if r.c.Persistent {
		stage = "ptree"
	}
	cc := *r.c
	cc.Ops = cc.Ops[:r.executed]
	return fmt.Errorf("%s", vfFail(id, stage, sig, &cc, format, args...))
}

func (r *vfTreeRun) id() string {
	if r.c.Persistent {
		return "C16"
	}
	return "C10"
}

func (r *vfTreeRun) open() error {
	if r.c.Persistent {
		t, err := NewTreePersistent(r.path)
		if err != nil {
			return fmt.Errorf("NewTreePersistent: %v", err)
		}
		r.tree = t
		return nil
	}
	r.tree = NewTree("vf")
	if r.c.Squeeze {
		// start from a backing buffer that holds just the root page, so that page allocations have
		// to grow the buffer from the first split on (instead of only after 1 MiB of pages)
		t := r.tree
		_ = t.buffer.Release()
		t.buffer = NewBuffer(2*pageSize+64, "vf")
		t.buffer.AllocateOffset(2 * pageSize)
		t.data = t.buffer.Bytes()
		t.stats = TreeStats{}
		t.nextPage, t.freePage = 1, 0
		t.initRootNode()
	}
	return nil
}

func (r *vfTreeRun) close() {
	if r.tree != nil {
		_ = r.tree.Close()
		r.tree = nil
	}
	if r.path != "" {
		_ = os.Remove(r.path)
	}
}

func vfRule(op *vfTreeOp) func(k, v uint64) uint64 {
	switch op.Rule {
	case "add":
		return func(k, v uint64) uint64 { return v + op.C }
	case "const":
		return func(k, v uint64) uint64 { return op.C }
	case "ifbelow":
		return func(k, v uint64) uint64 {
			if v < op.Th {
				return op.C
			}
			return 0
		}
	case "keyed":
		return func(k, v uint64) uint64 {
			if k%2 == 0 {
				return op.C
			}
			return 0
		}
	}
	return func(k, v uint64) uint64 { return 0 }
}

// structure returns the reachable pages, the number of levels and the free list.
func (r *vfTreeRun) structure() (reach map[uint64]int, levels int, free []uint64, err error) {
	t := r.tree
	reach = map[uint64]int{}
	var walk func(pid uint64, depth int) error
	walk = func(pid uint64, depth int) error {
		if pid == 0 || pid >= t.nextPage {
			return fmt.Errorf("child pointer %d outside the allocated pages [1,%d)", pid, t.nextPage)
		}
		reach[pid]++
		if reach[pid] > 1 {
			return fmt.Errorf("page %d is reachable twice", pid)
		}
		if depth > levels {
			levels = depth
		}
		n := t.node(pid)
		if n.isLeaf() {
			return nil
		}
		for i := 0; i < maxKeys; i++ {
			if n.key(i) == 0 {
				break
			}
			if e := walk(n.uint64(valOffset(i)), depth+1); e != nil {
				return e
			}
		}
		return nil
	}
	if e := walk(1, 1); e != nil {
		return reach, levels, nil, e
	}
	seen := map[uint64]bool{}
	for p := t.freePage; p != 0; p = t.node(p).uint64(0) {
		if p >= t.nextPage {
			return reach, levels, free, fmt.Errorf("free list points to page %d outside the allocated pages", p)
		}
		if seen[p] {
			return reach, levels, free, fmt.Errorf("free list is cyclic at page %d", p)
		}
		seen[p] = true
		free = append(free, p)
		if len(free) > int(t.nextPage) {
			return reach, levels, free, fmt.Errorf("free list longer than the number of pages")
		}
	}
	return reach, levels, free, nil
}

func (r *vfTreeRun) checkStructure() error {
	reach, levels, free, err := r.structure()
	if err != nil {
		return r.fail(r.id(), r.id()+"/structure", "page structure broken: %v", err)
	}
	if levels > r.maxLevels {
		r.maxLevels = levels
	}
	if n := int(r.tree.nextPage - 1); n > r.maxPages {
		r.maxPages = n
	}
	for _, p := range free {
		if reach[p] > 0 {
			return r.fail(r.id(), r.id()+"/free-page-in-use", "page %d is on the free list and reachable from the root", p)
		}
	}
	if len(free) != r.tree.stats.NumPagesFree {
		return r.fail(r.id(), r.id()+"/free-count", "free list has %d pages, NumPagesFree=%d", len(free), r.tree.stats.NumPagesFree)
	}
	if len(free)+len(reach) != int(r.tree.nextPage-1) {
		return r.fail(r.id(), r.id()+"/page-leak", "reachable %d + free %d != allocated %d pages", len(reach), len(free), r.tree.nextPage-1)
	}
	return nil
}

func (r *vfTreeRun) checkKey(k uint64, where string) error {
	if k == 0 || k == math.MaxUint64 {
		return nil
	}
	got := r.tree.Get(k)
	want := r.model[k]
	if got != want {
		cls := "wrong-value"
		if want == 0 {
			cls = "deleted-or-never-set-key-present"
		} else if got == 0 {
			cls = "live-key-missing"
		}
		return r.fail(r.id(), r.id()+"/get/"+cls, "%s: Get(%d)=%d, model says %d", where, k, got, want)
	}
	return nil
}

func (r *vfTreeRun) checkAround(k uint64, where string) error {
	for _, kk := range []uint64{k, k - 1, k + 1} {
		if err := r.checkKey(kk, where); err != nil {
			return err
		}
	}
	return nil
}

func (r *vfTreeRun) checkFull(where string) error {
	used := make([]uint64, 0, len(r.everUsed))
	for k := range r.everUsed {
		used = append(used, k)
	}
	sort.Slice(used, func(i, j int) bool { return used[i] < used[j] })
	stride := 1
	if len(used) > 4000 {
		stride = len(used) / 2000 // huge bulk cases: every stride-th key by Get, all of them by IterateKV below
	}
	for i := 0; i < len(used); i += stride {
		if err := r.checkKey(used[i], where); err != nil {
			return err
		}
	}
	seen := map[uint64]uint64{}
	var dup, zero error
	r.tree.IterateKV(func(k, v uint64) uint64 {
		if _, ok := seen[k]; ok && dup == nil {
			dup = fmt.Errorf("key %d visited twice", k)
		}
		if v == 0 && zero == nil {
			zero = fmt.Errorf("key %d visited with value 0", k)
		}
		seen[k] = v
		return 0
	})
	if dup != nil {
		return r.fail(r.id(), r.id()+"/iterate/duplicate", "%s: IterateKV: %v", where, dup)
	}
	if zero != nil {
		return r.fail(r.id(), r.id()+"/iterate/zero", "%s: IterateKV: %v", where, zero)
	}
	for _, k := range vfSortedKeys(r.model) {
		v := r.model[k]
		if sv, ok := seen[k]; !ok {
			return r.fail(r.id(), r.id()+"/iterate/missing", "%s: IterateKV did not visit live key %d (value %d)", where, k, v)
		} else if sv != v {
			return r.fail(r.id(), r.id()+"/iterate/wrong-value", "%s: IterateKV visited key %d with %d, model %d", where, k, sv, v)
		}
	}
	for _, k := range vfSortedKeys(seen) {
		v := seen[k]
		if _, ok := r.model[k]; !ok {
			return r.fail(r.id(), r.id()+"/iterate/deleted-or-never-set-key-present", "%s: IterateKV visited key %d (value %d) which is not live", where, k, v)
		}
	}
	return r.checkStructure()
}

// leafMaxKeyBelow reports whether some leaf's largest key carries a live value below ts
// (the case in which the routing key itself has to be deleted).
func (r *vfTreeRun) leafMaxKeyBelow(ts uint64) bool {
	hit := false
	r.tree.Iterate(func(n node) {
		if !n.isLeaf() || n.numKeys() == 0 {
			return
		}
		i := n.numKeys() - 1
		if v := n.val(i); v != 0 && v < ts {
			hit = true
		}
	})
	return hit
}

func (r *vfTreeRun) squeeze(pages int) {
	b := r.tree.buffer
	if !r.c.Squeeze || r.c.Persistent || b.bufType != UseCalloc {
		return
	}
	// leave room for exactly `pages` more pages: the allocation after those reallocates the buffer
	end := int(b.offset) + pages*pageSize
	if end > cap(b.buf) {
		end = cap(b.buf)
	}
	b.buf = b.buf[:end:end]
	b.curSz = end
	r.squeezed++
}

func (r *vfTreeRun) apply(op *vfTreeOp) (err error) {
	defer func() {
		if p := recover(); p != nil {
			err = r.fail(r.id(), r.id()+"/panic", "op %+v panicked: %v", *op, p)
		}
	}()
	t := r.tree
	switch op.Kind {
	case "set":
		freeBefore := t.stats.NumPagesFree
		r.squeeze(op.Sq)
		pagesBefore := t.nextPage
		t.Set(op.K, op.V)
		if r.c.Squeeze && int(t.nextPage-pagesBefore) > op.Sq {
			r.grewOnAlloc++
		}
		r.model[op.K] = op.V
		r.everUsed[op.K] = struct{}{}
		if t.stats.NumPagesFree < freeBefore {
			r.reused = true
			if r.sawReopen {
				r.reuseAfterOpen = true
			}
		}
		return r.checkAround(op.K, "after Set")
	case "get":
		return r.checkAround(op.K, "Get")
	case "delbelow":
		if r.leafMaxKeyBelow(op.V) {
			r.hitMaxKeyDel = true
		}
		freeBefore := t.stats.NumPagesFree
		t.DeleteBelow(op.V)
		removed, kept := 0, 0
		for k, v := range r.model {
			if v < op.V {
				delete(r.model, k)
				removed++
			} else {
				kept++
			}
		}
		if removed > 0 && kept > 0 {
			r.delPartial = true
		}
		if t.stats.NumPagesFree > freeBefore {
			r.recycled = true
		}
		return r.checkFull(fmt.Sprintf("after DeleteBelow(%d)", op.V))
	case "iter":
		return r.checkFull("IterateKV")
	case "rewrite":
		f := vfRule(op)
		visited := map[uint64]int{}
		t.IterateKV(func(k, v uint64) uint64 {
			visited[k]++
			return f(k, v)
		})
		vks := make([]uint64, 0, len(visited))
		for k := range visited {
			vks = append(vks, k)
		}
		sort.Slice(vks, func(i, j int) bool { return vks[i] < vks[j] })
		for _, k := range vks {
			n := visited[k]
			if n != 1 {
				return r.fail(r.id(), r.id()+"/iterate/duplicate", "rewriting IterateKV visited key %d %d times", k, n)
			}
			if _, ok := r.model[k]; !ok {
				return r.fail(r.id(), r.id()+"/iterate/deleted-or-never-set-key-present", "rewriting IterateKV visited key %d which is not live", k)
			}
		}
		for _, k := range vfSortedKeys(r.model) {
			v := r.model[k]
			if visited[k] != 1 {
				return r.fail(r.id(), r.id()+"/iterate/missing", "rewriting IterateKV did not visit live key %d", k)
			}
			if nv := f(k, v); nv != 0 {
				r.model[k] = nv
			}
		}
		return r.checkFull("after rewriting IterateKV")
	case "reset":
		t.Reset()
		r.model = map[uint64]uint64{}
		return r.checkFull("after Reset")
	case "bulk":
		// op.N keys starting at op.K with stride op.C, value op.V
		k := op.K
		for i := 0; i < op.N; i++ {
			if k == 0 || k >= vfMaxLegalKey {
				break
			}
			if op.N <= 64 {
				r.squeeze(op.Sq)
			}
			t.Set(k, op.V)
			r.model[k] = op.V
			r.everUsed[k] = struct{}{}
			if op.Desc {
				if k <= op.C {
					break
				}
				k -= op.C
				continue
			}
			if k+op.C < k {
				break
			}
			k += op.C
		}
		if len(t.data) > minSize && !r.c.Persistent {
			r.grew = true
		}
		if r.c.Persistent && op.N > 5000 && len(t.data) > minSize+pageSize {
			r.fileGrew++
		}
		return r.checkFull("after bulk Set")
	case "fillto":
		// sequential Sets until the tree has op.N pages (it may overshoot by one at a root split)
		k := op.K
		for i := 0; i < 4000000 && int(t.nextPage-1) < op.N; i++ {
			t.Set(k, op.V)
			r.model[k] = op.V
			r.everUsed[k] = struct{}{}
			k++
		}
		if int(t.nextPage-1) == op.N {
			r.filledExactly++
		}
		return r.checkFull("after fill-to-page-count")
	case "filltomapped":
		// sequential Sets until all but op.N of the whole page slots of the CURRENT mapping are in use (N may be negative:
		// go beyond it). After a reopen the mapping is the whole file, and its usable part can be an exact multiple of
		// the page size - which it never is for a new file.
		target := len(t.data)/pageSize - 1 - op.N
		k := op.K
		for i := 0; i < 4000000 && int(t.nextPage-1) < target; i++ {
			t.Set(k, op.V)
			r.model[k] = op.V
			r.everUsed[k] = struct{}{}
			k++
		}
		if int(t.nextPage-1) == target && op.N == 0 {
			r.filledExactly++
			if len(t.data)%pageSize == 0 {
				r.filledExactMultiple++
			}
		}
		return r.checkFull("after fill-to-last-mapped-slot")
	case "reopen":
		if !r.c.Persistent {
			return nil
		}
		r.sawReopen = true // from here on failures are C16's (a crash inside the reopen included)
		before := t.Stats()
		freeBefore := t.stats.NumPagesFree
		if e := t.Close(); e != nil {
			return fmt.Errorf("Close: %v", e)
		}
		r.tree = nil
		if e := r.open(); e != nil {
			return e
		}
		r.reopens++
		r.sawReopen = true
		if freeBefore >= 2 {
			r.reopenWithFree++
		}
		after := r.tree.Stats()
		b, a := before, after
		b.Allocated, a.Allocated = 0, 0
		if fmt.Sprintf("%+v", b) != fmt.Sprintf("%+v", a) {
			return r.fail("C16", "C16/stats-differ", "Stats before Close %+v, after reopen %+v", before, after)
		}
		return r.checkFull("after reopen")
	}
	return fmt.Errorf("unknown op %q", op.Kind)
}

func vfRunTreeCase(c *vfTreeCase, next func(r *vfTreeRun) *vfTreeOp) (*vfTreeRun, error) {
	restore := vfSetPageSize(c.MaxKeys)
	defer restore()
	// a read or write through a node that points into a mapping that was moved by a file growth faults: make that a
	// panic of this goroutine (reported as <id>/panic with the case saved) instead of the death of the test process
	defer debug.SetPanicOnFault(debug.SetPanicOnFault(true))
	r := &vfTreeRun{c: c, model: map[uint64]uint64{}, everUsed: map[uint64]struct{}{}}
	if c.Persistent {
		dir := os.Getenv("VERIF_WORKDIR")
		if dir == "" {
			dir = os.TempDir()
		}
		f, err := os.CreateTemp(dir, "vftree")
		if err != nil {
			return r, err
		}
		r.path = f.Name()
		f.Close()
		os.Remove(r.path)
		r.path = filepath.Clean(r.path)
	}
	if err := r.open(); err != nil {
		return r, err
	}
	defer r.close()
	for {
		op := next(r)
		if op == nil {
			break
		}
		r.executed++
		if err := r.apply(op); err != nil {
			return r, err
		}
	}
	if err := r.checkFull("at the end"); err != nil {
		return r, err
	}
	return r, nil
}

// ---- generation -----------------------------------------------------------

func vfSortedKeys(m map[uint64]uint64) []uint64 {
	ks := make([]uint64, 0, len(m))
	for k := range m {
		ks = append(ks, k)
	}
	sort.Slice(ks, func(i, j int) bool { return ks[i] < ks[j] })
	return ks
}

func vfGenTreeKey(t *rapid.T, r *vfTreeRun) uint64 {
	var k uint64
	switch rapid.IntRange(0, 11).Draw(t, "keymode") {
	case 0, 1, 2, 3:
		k = rapid.Uint64Range(1, 64).Draw(t, "k")
	case 4:
		k = rapid.Uint64Range(1, math.MaxUint64-1).Draw(t, "k")
	case 5, 6:
		if ks := vfSortedKeys(r.model); len(ks) > 0 {
			b := ks[rapid.IntRange(0, len(ks)-1).Draw(t, "kidx")]
			switch rapid.IntRange(0, 2).Draw(t, "kd") {
			case 0:
				k = b
			case 1:
				k = b + 1
			default:
				k = b - 1
			}
		} else {
			k = 1
		}
	case 7:
		k = rapid.SampledFrom([]uint64{1, 2, math.MaxUint64 - 3, math.MaxUint64 - 2, math.MaxUint64 - 1}).Draw(t, "k")
	case 10:
		// a key that was used before and may have been deleted since (its slot can survive as a routing placeholder)
		used := make([]uint64, 0, len(r.everUsed))
		for u := range r.everUsed {
			if _, live := r.model[u]; !live {
				used = append(used, u)
			}
		}
		sort.Slice(used, func(i, j int) bool { return used[i] < used[j] })
		if len(used) > 0 {
			k = used[rapid.IntRange(0, len(used)-1).Draw(t, "deadidx")]
		} else {
			k = rapid.Uint64Range(1, 64).Draw(t, "k")
		}
	case 8:
		// spread: multiples of a large stride, so that neighbours fall between leaves
		k = rapid.Uint64Range(1, 200).Draw(t, "k") * 1000003
	case 9:
		k = math.MaxUint64 - rapid.Uint64Range(1, 70).Draw(t, "k")
	default:
		k = rapid.Uint64Range(1, 400).Draw(t, "k")
	}
	if k == 0 {
		k = 1
	}
	if k == math.MaxUint64 {
		k = math.MaxUint64 - 1
	}
	return k
}

func vfGenTreeVal(t *rapid.T) uint64 {
	switch rapid.IntRange(0, 7).Draw(t, "valmode") {
	case 0:
		return rapid.Uint64Range(1, math.MaxUint64).Draw(t, "v")
	case 1:
		return math.MaxUint64
	default:
		return rapid.Uint64Range(1, 16).Draw(t, "v")
	}
}

func vfGenSq(t *rapid.T, r *vfTreeRun) int {
	if !r.c.Squeeze {
		return 0
	}
	return rapid.IntRange(0, 3).Draw(t, "sq")
}

func vfGenTreeOp(t *rapid.T, r *vfTreeRun, allowBulk bool) *vfTreeOp {
	w := rapid.IntRange(0, 99).Draw(t, "op")
	switch {
	case w < 58:
		if rapid.IntRange(0, 5).Draw(t, "run") == 0 {
			// ascending / descending run as one bulk op
			n := rapid.IntRange(3, 40).Draw(t, "runlen")
			start := vfGenTreeKey(t, r)
			stride := rapid.SampledFrom([]uint64{1, 1, 2, 7, 1 << 32}).Draw(t, "stride")
			return &vfTreeOp{Kind: "bulk", K: start, C: stride, N: n, V: vfGenTreeVal(t), Desc: rapid.Bool().Draw(t, "desc"), Sq: vfGenSq(t, r)}
		}
		return &vfTreeOp{Kind: "set", K: vfGenTreeKey(t, r), V: vfGenTreeVal(t), Sq: vfGenSq(t, r)}
	case w < 68:
		return &vfTreeOp{Kind: "get", K: vfGenTreeKey(t, r)}
	case w < 82:
		var ts uint64
		switch rapid.IntRange(0, 6).Draw(t, "tsmode") {
		case 0:
			ts = rapid.SampledFrom([]uint64{0, 1, math.MaxUint64}).Draw(t, "ts")
		case 1, 2:
			if ks := vfSortedKeys(r.model); len(ks) > 0 {
				ts = r.model[ks[rapid.IntRange(0, len(ks)-1).Draw(t, "tsidx")]]
				if rapid.Bool().Draw(t, "tsplus") {
					ts++
				}
			}
		default:
			ts = rapid.Uint64Range(1, 17).Draw(t, "ts")
		}
		return &vfTreeOp{Kind: "delbelow", V: ts}
	case w < 86:
		return &vfTreeOp{Kind: "iter"}
	case w < 92:
		op := &vfTreeOp{Kind: "rewrite", Rule: rapid.SampledFrom([]string{"add", "const", "ifbelow", "keyed"}).Draw(t, "rule")}
		op.C = rapid.Uint64Range(0, 12).Draw(t, "c")
		if rapid.IntRange(0, 9).Draw(t, "cbig") == 0 {
			op.C = rapid.Uint64().Draw(t, "c")
		}
		op.Th = rapid.Uint64Range(0, 17).Draw(t, "th")
		return op
	case w < 94:
		return &vfTreeOp{Kind: "reset"}
	case w < 97 && allowBulk:
		// enough sequential keys to outgrow the initial 1 MiB buffer with small pages
		return &vfTreeOp{Kind: "bulk", K: rapid.Uint64Range(1, 1000).Draw(t, "k"), C: 1,
			N: (minSize/pageSize)*maxKeys/2 + rapid.IntRange(1, 2000).Draw(t, "extra"), V: vfGenTreeVal(t)}
	default:
		if r.c.Persistent {
			return &vfTreeOp{Kind: "reopen"}
		}
		return &vfTreeOp{Kind: "set", K: vfGenTreeKey(t, r), V: vfGenTreeVal(t)}
	}
}

func vfTreeEvidence(ev *vfEvidence, r *vfTreeRun, c *vfTreeCase) {
	var nt bool
	if c.Persistent {
		nt = r.reopenWithFree > 0 && r.reuseAfterOpen
	} else {
		nt = (r.maxLevels >= 3 || r.maxPages >= 8) && r.delPartial && r.recycled && r.reused
	}
	h := vfNewHasher()
	h.Add(uint64(c.MaxKeys))
	for _, op := range c.Ops {
		h.Add(vfHash(op.Kind, op.Rule))
		h.Add(op.K)
		h.Add(op.V)
		h.Add(op.C)
		h.Add(uint64(op.N*8 + op.Sq))
	}
	cl := []string{fmt.Sprintf("maxKeys=%d", c.MaxKeys)}
	if r.maxLevels >= 3 {
		cl = append(cl, "levels>=3")
	}
	if r.maxPages >= 8 {
		cl = append(cl, "pages>=8")
	}
	if r.delPartial {
		cl = append(cl, "partial-DeleteBelow")
	}
	if r.recycled {
		cl = append(cl, "page-recycled")
	}
	if r.reused {
		cl = append(cl, "free-page-reused")
	}
	if r.grew {
		cl = append(cl, "buffer-grew")
	}
	if r.grewOnAlloc > 0 {
		cl = append(cl, "buffer-reallocated-during-a-page-allocating-Set")
	}
	if r.hitMaxKeyDel {
		cl = append(cl, "DeleteBelow-hit-a-leafs-largest-key")
	}
	if r.reopens > 0 {
		cl = append(cl, "reopen")
	}
	if r.fileGrew >= 2 {
		cl = append(cl, "file-outgrown-before-and-after-a-reopen")
	}
	if r.filledExactly > 0 {
		cl = append(cl, "closed-with-(nearly)-every-page-slot-of-the-initial-file-in-use")
	}
	if r.filledExactMultiple > 0 {
		cl = append(cl, "closed-with-the-last-slot-of-an-exactly-divisible-mapping-in-use")
	}
	if r.reopenWithFree > 0 {
		cl = append(cl, "reopen-with>=2-free-pages")
	}
	if r.reuseAfterOpen {
		cl = append(cl, "free-page-reused-after-reopen")
	}
	ev.Case(nt, h.Sum(), cl...)
	ev.Sample(nt, func() any {
		ops := c.Ops
		if len(ops) > 40 {
			ops = ops[:40]
		}
		return map[string]any{"max_keys_per_page": c.MaxKeys, "persistent": c.Persistent, "n_ops": len(c.Ops), "first_ops": ops,
			"levels": r.maxLevels, "pages": r.maxPages}
	})
}

func vfTreeProperty(ev *vfEvidence, persistent bool) func(t *rapid.T) {
	return func(t *rapid.T) {
		c := &vfTreeCase{Persistent: persistent}
		if persistent {
			c.MaxKeys = rapid.SampledFrom([]int{7, 7, 7, 15, 15, 31, 63, 127, 255, 4, 5, 9}).Draw(t, "maxKeys")
		} else {
			c.MaxKeys = rapid.SampledFrom([]int{4, 4, 4, 4, 5, 5, 6, 7, 7, 8, 9, 15, 16, 31, 63, 127, 255}).Draw(t, "maxKeys")
		}
		nops := rapid.IntRange(1, 90).Draw(t, "nops")
		if !persistent {
			c.Squeeze = rapid.IntRange(0, 5).Draw(t, "squeeze") == 0
		}
		allowBulk := !persistent && c.MaxKeys <= 7 && rapid.IntRange(0, 39).Draw(t, "growth") == 0
		bulks := 0
		// persistent trees, rarely: outgrow the 1 MiB file, reopen, outgrow the reopened file, reopen
		var plan []vfTreeOp
		planAt := -1
		if persistent && c.MaxKeys == 7 && rapid.IntRange(0, 99).Draw(t, "filegrowth") >= 96 {
			per := (minSize / (16 * (c.MaxKeys + 1))) * c.MaxKeys / 2
			n1 := per + rapid.IntRange(500, 3000).Draw(t, "g1")
			n2 := 2*per + rapid.IntRange(500, 3000).Draw(t, "g2")
			plan = []vfTreeOp{{Kind: "bulk", K: 1000, C: 1, N: n1, V: 5}, {Kind: "reopen"},
				{Kind: "bulk", K: uint64(1000 + n1), C: 1, N: n2, V: 6}, {Kind: "reopen"}, {Kind: "bulk", K: 500000000, C: 3, N: 40, V: 7}}
			planAt = rapid.IntRange(0, nops).Draw(t, "planat")
		}
		if !persistent && !c.Squeeze && c.MaxKeys <= 9 && rapid.IntRange(0, 599).Draw(t, "growresetregrow") == 0 {
			// outgrow the first MiB of pages, Reset, grow past it again with other keys in another order (pages beyond the
			// first MiB are used a second time), then the usual operations and the full comparison (Get and IterateKV)
			pages := minSize / (16 * (c.MaxKeys + 1))
			n1 := pages*c.MaxKeys/2 + rapid.IntRange(1000, 20000).Draw(t, "grr1")
			n2 := pages*c.MaxKeys/2 + rapid.IntRange(1000, 30000).Draw(t, "grr2")
			second := vfTreeOp{Kind: "bulk", K: 5, C: uint64(rapid.IntRange(1, 9).Draw(t, "grrstride")), N: n2, V: 6}
			if rapid.Bool().Draw(t, "grrdesc") {
				second = vfTreeOp{Kind: "bulk", K: uint64(n2) * 11, C: uint64(rapid.IntRange(1, 9).Draw(t, "grrstride2")), N: n2, V: 6, Desc: true}
			}
			plan = []vfTreeOp{{Kind: "bulk", K: 1000, C: 1, N: n1, V: 5}, {Kind: "reset"}, second}
			planAt = nops // at the end: every further operation would pay for a full comparison of tens of thousands of keys
		}
		if persistent && plan == nil && rapid.IntRange(0, 99).Draw(t, "fillboundary") >= 94 {
			// close the file when (almost) every whole page slot of the initial 1 MiB mapping is in use
			slots := (minSize - 8) / (16 * (c.MaxKeys + 1)) // whole page slots in the mapping, slot 0 included
			target := slots - 1 + rapid.IntRange(-2, 1).Draw(t, "filldelta")
			plan = []vfTreeOp{{Kind: "fillto", K: 7000000, N: target, V: 9}, {Kind: "reopen"}, {Kind: "bulk", K: 900000000, C: 5, N: 30, V: 8}, {Kind: "reopen"}}
			if rapid.Bool().Draw(t, "secondmapping") {
				// outgrow the initial mapping by a few pages (the file grows), reopen (now the whole file is mapped), fill
				// that mapping up to its last whole slot, reopen, go on
				over := slots + rapid.IntRange(1, 6).Draw(t, "over")
				plan = []vfTreeOp{{Kind: "fillto", K: 7000000, N: over, V: 9}, {Kind: "reopen"},
					{Kind: "filltomapped", K: 300000000, N: rapid.IntRange(-1, 2).Draw(t, "left"), V: 10}, {Kind: "reopen"},
					{Kind: "bulk", K: 900000000, C: 5, N: 30, V: 8}, {Kind: "reopen"}}
			}
			planAt = rapid.IntRange(0, nops).Draw(t, "planat")
		}
		r, err := vfRunTreeCase(c, func(r *vfTreeRun) *vfTreeOp {
			if len(plan) > 0 && len(c.Ops) >= planAt {
				op := plan[0]
				plan = plan[1:]
				c.Ops = append(c.Ops, op)
				return &c.Ops[len(c.Ops)-1]
			}
			if len(c.Ops) >= nops {
				return nil
			}
			op := vfGenTreeOp(t, r, allowBulk && bulks == 0)
			if op.Kind == "bulk" && op.N > 1000 {
				bulks++
			}
			c.Ops = append(c.Ops, *op)
			return op
		})
		if f, ok := err.(*vfForeign); ok {
			ev.Excluded("diverged_other=C10:" + f.sig + " (before any reopen)")
			return
		}
		if err != nil {
			t.Fatalf("%v", err)
		}
		vfTreeEvidence(ev, r, c)
	}
}

func vfReplayTree(t *testing.T) {
	var c vfTreeCase
	if !vfLoadReplay(t, &c) {
		return
	}
	i := 0
	_, err := vfRunTreeCase(&c, func(r *vfTreeRun) *vfTreeOp {
		if i >= len(c.Ops) {
			return nil
		}
		i++
		return &c.Ops[i-1]
	})
	if err != nil {
		t.Fatalf("%v", err)
	}
}

func TestVf_C10(t *testing.T) {
	ev := vfNewEvidence(t, "C10")
	rapid.Check(t, vfTreeProperty(ev, false))
}

func TestVfReplay_C10(t *testing.T) { vfReplayTree(t) }

func TestVf_C16(t *testing.T) {
	ev := vfNewEvidence(t, "C16")
	rapid.Check(t, vfTreeProperty(ev, true))
}

func TestVfReplay_C16(t *testing.T) { vfReplayTree(t) }

// Native coverage-guided fuzzing (thorough tier): the fuzzer's bytes drive the same generators.
func FuzzVf_C10(f *testing.F) {
	ev := &vfEvidence{id: "C10", classes: map[string]int{}, excluded: map[string]int{}, nontrivial: map[uint64]struct{}{}}
	f.Fuzz(rapid.MakeFuzz(vfTreeProperty(ev, false)))
}
