//go:build verif

package z

// E7: z.Bloom against a reference set (property C19).

import (
	"fmt"
	"math"
	"testing"

	"pgregory.net/rapid"
)

type vfBloomOp struct {
	Kind string `json:"kind"` // add addifnot has clear roundtrip
	H    uint64 `json:"h,omitempty"`
}

type vfBloomCase struct {
	Entries float64     `json:"entries"`
	Second  float64     `json:"second"` // >= 1: number of locations; < 1: false-positive rate
	Ops     []vfBloomOp `json:"ops"`
	Probes  []uint64    `json:"probes"` // extra hashes probed on both sides of a round trip / after Clear
}

type vfBloomStats struct {
	members    int
	special    bool
	roundtrips int
	clears     int
	sizeExp    uint64
	locs       uint64
	executed   int
}

func vfIsSpecialHash(h uint64) bool {
	return h == 0 || h == math.MaxUint64 || h&0xffffffff == 0 || h>>32 == 0 || h&0xffffffff == 0xffffffff || h>>32 == 0xffffffff
}

func vfRunBloomCase(c *vfBloomCase) (st vfBloomStats, sig string, msg string) {
	defer func() {
		if p := recover(); p != nil {
			sig, msg = "C19/panic", fmt.Sprintf("panic: %v", p)
		}
	}()
	bf := NewBloomFilter(c.Entries, c.Second)
	st.sizeExp, st.locs = bf.sizeExp, bf.setLocs
	model := map[uint64]struct{}{}
	ever := map[uint64]struct{}{}
	everList := []uint64{}
	note := func(h uint64) {
		if _, ok := ever[h]; !ok {
			ever[h] = struct{}{}
			everList = append(everList, h)
		}
	}
	membersOK := func(where string) (string, string) {
		for _, h := range everList {
			if _, ok := model[h]; ok && !bf.Has(h) {
				return "C19/false-negative", fmt.Sprintf("%s: Has(%#x) is false although it was added and not cleared", where, h)
			}
		}
		return "", ""
	}
	for i := range c.Ops {
		op := &c.Ops[i]
		st.executed = i + 1
		switch op.Kind {
		case "add":
			bf.Add(op.H)
			model[op.H] = struct{}{}
			note(op.H)
			if !bf.Has(op.H) {
				return st, "C19/false-negative", fmt.Sprintf("Has(%#x) false right after Add", op.H)
			}
		case "addifnot":
			pre := bf.Has(op.H)
			got := bf.AddIfNotHas(op.H)
			note(op.H)
			if got != !pre {
				return st, "C19/addifnothas-result", fmt.Sprintf("AddIfNotHas(%#x)=%v but Has beforehand was %v", op.H, got, pre)
			}
			model[op.H] = struct{}{}
			if !bf.Has(op.H) {
				return st, "C19/false-negative", fmt.Sprintf("Has(%#x) false right after AddIfNotHas", op.H)
			}
		case "has":
			note(op.H)
			if _, ok := model[op.H]; ok && !bf.Has(op.H) {
				return st, "C19/false-negative", fmt.Sprintf("Has(%#x) false for a member", op.H)
			}
		case "clear":
			bf.Clear()
			model = map[uint64]struct{}{}
			st.clears++
			for _, h := range append(append([]uint64{}, everList...), c.Probes...) {
				if bf.Has(h) {
					return st, "C19/clear-leaves-bits", fmt.Sprintf("Has(%#x) true after Clear", h)
				}
			}
		case "roundtrip":
			data := bf.JSONMarshal()
			g, err := JSONUnmarshal(data)
			if err != nil {
				return st, "C19/roundtrip-error", fmt.Sprintf("JSONUnmarshal: %v", err)
			}
			st.roundtrips++
			if len(model) > st.members {
				st.members = len(model)
			}
			for _, h := range append(append([]uint64{}, everList...), c.Probes...) {
				if a, b := bf.Has(h), g.Has(h); a != b {
					return st, "C19/roundtrip-differs", fmt.Sprintf("Has(%#x): original %v, after JSON round trip %v (sizeExp=%d locs=%d)", h, a, b, bf.sizeExp, bf.setLocs)
				}
			}
			// continue on the reconstructed filter: it must behave as the original from here on
			bf = g
		}
		if i%16 == 15 {
			if s, m := membersOK("periodic check"); s != "" {
				return st, s, m
			}
		}
	}
	if s, m := membersOK("final check"); s != "" {
		return st, s, m
	}
	for h := range ever {
		if vfIsSpecialHash(h) {
			st.special = true
		}
	}
	return st, "", ""
}

func vfGenBloomHash(t *rapid.T, used []uint64) uint64 {
	switch rapid.IntRange(0, 11).Draw(t, "hmode") {
	case 0:
		return rapid.SampledFrom([]uint64{0, math.MaxUint64, 1, 1 << 63, 0xffffffff, 0xffffffff00000000}).Draw(t, "h")
	case 1:
		return rapid.Uint64().Draw(t, "h") << 32 // low half zero: every location coincides
	case 2:
		return rapid.Uint64().Draw(t, "h") >> 32 // high half zero
	case 3:
		return rapid.Uint64().Draw(t, "h") | 0xffffffff
	case 4:
		return rapid.Uint64().Draw(t, "h") | 0xffffffff00000000
	case 5:
		return rapid.Uint64().Draw(t, "h") << rapid.UintRange(0, 63).Draw(t, "sh")
	case 6, 7:
		if len(used) > 0 {
			return used[rapid.IntRange(0, len(used)-1).Draw(t, "hidx")]
		}
		fallthrough
	default:
		return rapid.Uint64().Draw(t, "h")
	}
}

func vfGenBloomCase(t *rapid.T) *vfBloomCase {
	c := &vfBloomCase{}
	switch rapid.IntRange(0, 9).Draw(t, "emode") {
	case 0:
		c.Entries = float64(rapid.IntRange(1, 1<<18).Draw(t, "entries"))
	case 1:
		c.Entries = float64(uint64(1) << rapid.UintRange(0, 18).Draw(t, "eexp"))
	case 2:
		c.Entries = float64((uint64(1) << rapid.UintRange(1, 18).Draw(t, "eexp")) + uint64(rapid.IntRange(-1, 1).Draw(t, "ed")))
	default:
		c.Entries = float64(rapid.IntRange(1, 2000).Draw(t, "entries"))
	}
	if rapid.Bool().Draw(t, "ratemode") {
		c.Second = rapid.SampledFrom([]float64{1e-12, 1e-9, 1e-6, 0.0001, 0.001, 0.01, 0.03, 0.1, 0.5, 0.9, 0.999}).Draw(t, "rate")
		if rapid.Bool().Draw(t, "ratefree") {
			c.Second = rapid.Float64Range(1e-12, 0.9).Draw(t, "rate")
		}
		if c.Entries > 4096 && c.Second < 1e-6 {
			c.Entries = float64(int(c.Entries)%4096 + 1) // keep the bit set small enough for thousands of round trips
		}
	} else {
		c.Second = float64(rapid.IntRange(1, 16).Draw(t, "locs"))
	}
	nops := rapid.IntRange(1, 60).Draw(t, "nops")
	many := rapid.IntRange(0, 2).Draw(t, "many") == 0
	if many {
		nops = rapid.IntRange(100, 300).Draw(t, "nops2")
	}
	// one case in six: many Add/Clear cycles on one small filter without a round trip in between (state that drifts a
	// little with every cycle only shows after many of them)
	cycles := rapid.IntRange(0, 5).Draw(t, "cycles") == 0
	if cycles {
		c.Entries = float64(rapid.IntRange(1, 300).Draw(t, "centries"))
		nops = rapid.IntRange(300, 1500).Draw(t, "cnops")
	}
	var used []uint64
	for i := 0; i < nops; i++ {
		w := rapid.IntRange(0, 99).Draw(t, "op")
		if cycles {
			switch {
			case w < 60:
				w = 0 // add
			case w < 80:
				w = 50 // addifnot
			case w < 95:
				w = 75 // has
			default:
				w = 85 // clear
			}
		}
		switch {
		case w < 45:
			h := vfGenBloomHash(t, used)
			used = append(used, h)
			c.Ops = append(c.Ops, vfBloomOp{Kind: "add", H: h})
		case w < 70:
			h := vfGenBloomHash(t, used)
			used = append(used, h)
			c.Ops = append(c.Ops, vfBloomOp{Kind: "addifnot", H: h})
		case w < 85:
			c.Ops = append(c.Ops, vfBloomOp{Kind: "has", H: vfGenBloomHash(t, used)})
		case w < 86 || (w < 88 && !many) || (cycles && w == 85):
			c.Ops = append(c.Ops, vfBloomOp{Kind: "clear"})
		default:
			c.Ops = append(c.Ops, vfBloomOp{Kind: "roundtrip"})
		}
	}
	if rapid.IntRange(0, 2).Draw(t, "endrt") > 0 {
		c.Ops = append(c.Ops, vfBloomOp{Kind: "roundtrip"})
	}
	np := rapid.IntRange(0, 200).Draw(t, "nprobes")
	for i := 0; i < np; i++ {
		c.Probes = append(c.Probes, vfGenBloomHash(t, used))
	}
	return c
}

func TestVf_C19(t *testing.T) {
	ev := vfNewEvidence(t, "C19")
	rapid.Check(t, func(t *rapid.T) {
		c := vfGenBloomCase(t)
		st, sig, msg := vfRunBloomCase(c)
		if sig != "" {
			cc := *c
			cc.Ops = cc.Ops[:st.executed]
			t.Fatalf("%s", vfFail("C19", "bloom", sig, &cc, "%s", msg))
		}
		nt := st.members >= 64 && st.special && st.roundtrips > 0
		h := vfNewHasher()
		h.Add(math.Float64bits(c.Entries))
		h.Add(math.Float64bits(c.Second))
		for _, op := range c.Ops {
			h.Add(uint64(len(op.Kind)))
			h.Add(op.H)
		}
		cl := []string{fmt.Sprintf("sizeExp=%d", st.sizeExp)}
		if c.Second < 1 {
			cl = append(cl, "rate-parameterisation")
		} else {
			cl = append(cl, "locations-parameterisation")
		}
		if st.roundtrips > 0 {
			cl = append(cl, "json-roundtrip")
		}
		if st.clears > 0 {
			cl = append(cl, "clear")
		}
		if st.special {
			cl = append(cl, "special-pattern-hash")
		}
		if st.members >= 64 {
			cl = append(cl, "members>=64")
		}
		ev.Case(nt, h.Sum(), cl...)
		ev.Sample(nt, func() any {
			ops := c.Ops
			if len(ops) > 30 {
				ops = ops[:30]
			}
			return map[string]any{"entries": c.Entries, "locs_or_rate": c.Second, "n_ops": len(c.Ops), "first_ops": ops,
				"n_probes": len(c.Probes), "sizeExp": st.sizeExp, "setLocs": st.locs}
		})
	})
}

func TestVfReplay_C19(t *testing.T) {
	var c vfBloomCase
	if !vfLoadReplay(t, &c) {
		return
	}
	if _, sig, msg := vfRunBloomCase(&c); sig != "" {
		t.Fatalf("%s", vfFail("C19", "replay", sig, &c, "%s", msg))
	}
}

func FuzzVf_C19(f *testing.F) {
	f.Fuzz(rapid.MakeFuzz(func(t *rapid.T) {
		c := vfGenBloomCase(t)
		if st, sig, msg := vfRunBloomCase(c); sig != "" {
			cc := *c
			cc.Ops = cc.Ops[:st.executed]
			t.Fatalf("%s", vfFail("C19", "bloom", sig, &cc, "%s", msg))
		}
	}))
}
