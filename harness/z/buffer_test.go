//go:build verif

package z

// E5: z.Buffer against reference []byte / [][]byte (property C11).

import (
	"bytes"
	"fmt"
	"os"
	"runtime/debug"
	"testing"

	"pgregory.net/rapid"
)

type vfBufOp struct {
	Kind  string `json:"kind"` // raw: write alloc allocoff reset | slice: wslice salloc bulk reset sort sortbetween
	Len   int    `json:"len,omitempty"`
	Seed  uint64 `json:"seed,omitempty"`
	Alpha int    `json:"alpha,omitempty"` // alphabet size of the generated content (0 = 256)
	Count int    `json:"count,omitempty"` // bulk: number of slices, each of length 0..Len
	Less  string `json:"less,omitempty"`  // lex rev lenlex first
	From  int    `json:"from,omitempty"`  // sortbetween: slice indices [From, To)
	To    int    `json:"to,omitempty"`
}

type vfBufCase struct {
	Mode      string    `json:"mode"` // calloc mmap automap
	Capacity  int       `json:"capacity"`
	Threshold int       `json:"threshold,omitempty"`
	MaxSize   int       `json:"max_size,omitempty"`
	SliceMode bool      `json:"slice_mode"`
	Ops       []vfBufOp `json:"ops"`
}

func vfContent(n int, seed uint64, alpha int) []byte {
	out := make([]byte, n)
	x := seed*2862933555777941757 + 3037000493
	for i := range out {
		x ^= x << 13
		x ^= x >> 7
		x ^= x << 17
		v := byte(x >> 24)
		if alpha > 0 {
			v = 'a' + v%byte(alpha)
		}
		out[i] = v
	}
	return out
}

func vfLess(name string) LessFunc {
	first := func(b []byte) int {
		if len(b) == 0 {
			return -1
		}
		return int(b[0])
	}
	switch name {
	case "rev":
		return func(a, b []byte) bool { return bytes.Compare(a, b) > 0 }
	case "lenlex":
		return func(a, b []byte) bool {
			if len(a) != len(b) {
				return len(a) < len(b)
			}
			return bytes.Compare(a, b) < 0
		}
	case "first":
		return func(a, b []byte) bool { return first(a) < first(b) }
	}
	return func(a, b []byte) bool { return bytes.Compare(a, b) < 0 }
}

type vfBufStats struct {
	grewWithData  bool
	switchedMmap  bool
	sortBig       bool
	sortSubrange  bool
	sorts         int
	maxRefused    int
	maxSlices     int
	executed      int
	resets        int
	emptySlices   int
	biggerThanCap bool
}

type vfBufRun struct {
	c      *vfBufCase
	b      *Buffer
	raw    []byte
	slices [][]byte
	st     vfBufStats
}

func (r *vfBufRun) sliceOffset(i int) int {
	off := r.b.StartOffset()
	for j := 0; j < i; j++ {
		off += 8 + len(r.slices[j])
	}
	return off
}

func (r *vfBufRun) refBytes() []byte {
	if !r.c.SliceMode {
		return r.raw
	}
	var out []byte
	for _, s := range r.slices {
		var l [8]byte
		n := uint64(len(s))
		for i := 7; i >= 0; i-- {
			l[i] = byte(n)
			n >>= 8
		}
		out = append(out, l[:]...)
		out = append(out, s...)
	}
	return out
}

func vfNonEmpty(in [][]byte) [][]byte {
	var out [][]byte
	for _, s := range in {
		if len(s) > 0 {
			out = append(out, s)
		}
	}
	return out
}

func vfSameSlices(a, b [][]byte) (bool, string) {
	if len(a) != len(b) {
		return false, fmt.Sprintf("%d slices, reference has %d", len(a), len(b))
	}
	for i := range a {
		if !bytes.Equal(a[i], b[i]) {
			return false, fmt.Sprintf("slice %d differs (len %d vs %d)", i, len(a[i]), len(b[i]))
		}
	}
	return true, ""
}

func (r *vfBufRun) check(where string, deep bool) (string, string) {
	b := r.b
	ref := r.refBytes()
	if !bytes.Equal(b.Bytes(), ref) {
		got := b.Bytes()
		i := 0
		for i < len(got) && i < len(ref) && got[i] == ref[i] {
			i++
		}
		return "C11/bytes-differ", fmt.Sprintf("%s: Bytes() has %d bytes, reference %d; first difference at %d", where, len(got), len(ref), i)
	}
	if b.LenNoPadding() != len(ref) || b.LenWithPadding() != len(ref)+b.StartOffset() {
		return "C11/len", fmt.Sprintf("%s: LenNoPadding=%d LenWithPadding=%d for %d bytes", where, b.LenNoPadding(), b.LenWithPadding(), len(ref))
	}
	if b.IsEmpty() != (len(ref) == 0) {
		return "C11/len", fmt.Sprintf("%s: IsEmpty=%v with %d bytes", where, b.IsEmpty(), len(ref))
	}
	if r.c.MaxSize > 0 && b.LenWithPadding() > r.c.MaxSize {
		return "C11/maxsize/exceeded", fmt.Sprintf("%s: LenWithPadding=%d > max size %d", where, b.LenWithPadding(), r.c.MaxSize)
	}
	if !r.c.SliceMode || !deep {
		return "", ""
	}
	want := vfNonEmpty(r.slices)
	var got [][]byte
	if err := b.SliceIterate(func(s []byte) error {
		got = append(got, append([]byte(nil), s...))
		return nil
	}); err != nil {
		return "C11/slice-iterate", fmt.Sprintf("%s: SliceIterate error %v", where, err)
	}
	if ok, m := vfSameSlices(got, want); !ok {
		return "C11/slice-iterate", fmt.Sprintf("%s: SliceIterate: %s", where, m)
	}
	// walk with Slice(next)
	got = got[:0]
	next := b.StartOffset()
	steps := 0
	for next >= 0 {
		var s []byte
		s, next = b.Slice(next)
		if len(s) > 0 {
			got = append(got, s)
		}
		if steps++; steps > len(r.slices)+2 {
			return "C11/slice-walk", fmt.Sprintf("%s: Slice walk does not terminate", where)
		}
	}
	if ok, m := vfSameSlices(got, want); !ok {
		return "C11/slice-walk", fmt.Sprintf("%s: Slice walk: %s", where, m)
	}
	got = got[:0]
	for _, off := range b.SliceOffsets() {
		s, _ := b.Slice(off)
		if len(s) > 0 {
			got = append(got, s)
		}
	}
	if ok, m := vfSameSlices(got, want); !ok {
		return "C11/slice-offsets", fmt.Sprintf("%s: SliceOffsets: %s", where, m)
	}
	return "", ""
}

// guarded runs f; for buffers with a max size it decides whether f had to panic.
func (r *vfBufRun) guarded(need int, f func()) (ran bool, sig, msg string) {
	fits := true
	if r.c.MaxSize > 0 && r.b.LenWithPadding()+need > r.c.MaxSize {
		fits = false
	}
	var pv any
	func() {
		defer func() { pv = recover() }()
		f()
	}()
	switch {
	case pv == nil && fits:
		return true, "", ""
	case pv == nil && !fits:
		return true, "C11/maxsize/exceeded", fmt.Sprintf("write of %d bytes at length %d accepted although max size is %d", need, r.b.LenWithPadding()-need, r.c.MaxSize)
	case pv != nil && fits:
		return false, "C11/panic", fmt.Sprintf("write of %d bytes at length %d (max size %d) panicked: %v", need, r.b.LenWithPadding(), r.c.MaxSize, pv)
	default:
		r.st.maxRefused++
		return false, "", ""
	}
}

func (r *vfBufRun) apply(op *vfBufOp) (sig, msg string) {
	b := r.b
	szBefore, typeBefore, hadData := b.curSz, b.bufType, b.LenNoPadding() > 0
	deep := true
	switch op.Kind {
	case "write":
		data := vfContent(op.Len, op.Seed, op.Alpha)
		ran, s, m := r.guarded(op.Len, func() {
			n, err := b.Write(data)
			if n != len(data) || err != nil {
				panic(fmt.Sprintf("Write returned %d, %v", n, err))
			}
		})
		if s != "" {
			return s, m
		}
		if ran {
			r.raw = append(r.raw, data...)
		}
	case "alloc":
		data := vfContent(op.Len, op.Seed, op.Alpha)
		var wrong string
		ran, s, m := r.guarded(op.Len, func() {
			dst := b.Allocate(op.Len)
			if len(dst) != op.Len {
				wrong = fmt.Sprintf("Allocate(%d) returned %d bytes", op.Len, len(dst))
			}
			copy(dst, data)
		})
		if s != "" {
			return s, m
		}
		if wrong != "" {
			return "C11/allocate-size", wrong
		}
		if ran {
			r.raw = append(r.raw, data...)
		}
	case "allocoff":
		data := vfContent(op.Len, op.Seed, op.Alpha)
		ran, s, m := r.guarded(op.Len, func() {
			off := b.AllocateOffset(op.Len)
			copy(b.Data(off)[:op.Len], data)
		})
		if s != "" {
			return s, m
		}
		if ran {
			r.raw = append(r.raw, data...)
		}
	case "reset":
		b.Reset()
		r.raw = r.raw[:0]
		r.slices = r.slices[:0]
		r.st.resets++
	case "wslice":
		data := vfContent(op.Len, op.Seed, op.Alpha)
		ran, s, m := r.guarded(8+op.Len, func() { b.WriteSlice(data) })
		if s != "" {
			return s, m
		}
		if ran {
			r.slices = append(r.slices, data)
		}
	case "salloc":
		data := vfContent(op.Len, op.Seed, op.Alpha)
		var wrong string
		ran, s, m := r.guarded(8+op.Len, func() {
			dst := b.SliceAllocate(op.Len)
			if len(dst) != op.Len {
				wrong = fmt.Sprintf("SliceAllocate(%d) returned %d bytes", op.Len, len(dst))
			}
			copy(dst, data)
		})
		if s != "" {
			return s, m
		}
		if wrong != "" {
			return "C11/allocate-size", wrong
		}
		if ran {
			r.slices = append(r.slices, data)
		}
	case "bulk":
		for i := 0; i < op.Count; i++ {
			seed := op.Seed + uint64(i)*0x9e3779b97f4a7c15
			n := 0
			if op.Len > 0 {
				n = int((seed >> 33) % uint64(op.Len+1))
			}
			data := vfContent(n, seed, op.Alpha)
			b.WriteSlice(data)
			r.slices = append(r.slices, data)
		}
	case "sort", "sortbetween":
		less := vfLess(op.Less)
		from, to := 0, len(r.slices)
		if op.Kind == "sortbetween" {
			from, to = op.From, op.To
			if to > len(r.slices) {
				to = len(r.slices)
			}
			if from > to {
				from = to
			}
		}
		before := append([]byte(nil), b.Bytes()...)
		start, end := r.sliceOffset(from), r.sliceOffset(to)
		if op.Kind == "sort" {
			b.SortSlice(less)
		} else {
			b.SortSliceBetween(start, end, less)
		}
		r.st.sorts++
		if to-from >= 1025 {
			r.st.sortBig = true
		}
		if (from > 0 || to < len(r.slices)) && to-from >= 2 {
			r.st.sortSubrange = true
		}
		after := b.Bytes()
		if len(after) != len(before) {
			return "C11/sort/length-changed", fmt.Sprintf("sort changed the buffer length %d -> %d", len(before), len(after))
		}
		pad := b.StartOffset()
		if !bytes.Equal(after[:start-pad], before[:start-pad]) || !bytes.Equal(after[end-pad:], before[end-pad:]) {
			return "C11/sort/outside-range-touched", fmt.Sprintf("SortSliceBetween(%d,%d) changed bytes outside the range", start, end)
		}
		// read the sorted range back
		var got [][]byte
		off := start
		for off < end {
			s, next := b.Slice(off)
			got = append(got, append([]byte(nil), s...))
			if next < 0 {
				break
			}
			off = next
		}
		if len(got) != to-from {
			return "C11/sort/not-a-permutation", fmt.Sprintf("sorted range holds %d slices, expected %d", len(got), to-from)
		}
		count := map[string]int{}
		for _, s := range r.slices[from:to] {
			count[string(s)]++
		}
		for _, s := range got {
			count[string(s)]--
		}
		for k, v := range count {
			if v != 0 {
				return "C11/sort/not-a-permutation", fmt.Sprintf("slice %q count differs by %d after sort (%s, %d slices)", vfShort(k), v, op.Less, to-from)
			}
		}
		for i := 1; i < len(got); i++ {
			if less(got[i], got[i-1]) {
				return "C11/sort/not-ordered", fmt.Sprintf("after sort (%s, %d slices) element %d sorts before element %d", op.Less, len(got), i, i-1)
			}
		}
		copy(r.slices[from:to], got)
	}
	if b.curSz != szBefore && hadData {
		r.st.grewWithData = true
		if typeBefore == UseCalloc && b.bufType == UseMmap {
			r.st.switchedMmap = true
		}
	}
	if len(r.slices) > r.st.maxSlices {
		r.st.maxSlices = len(r.slices)
	}
	// the O(n) deep check is done for every op on small buffers and sparsely on large ones
	if len(r.slices) > 200 && op.Kind != "sort" && op.Kind != "sortbetween" && op.Kind != "bulk" && op.Kind != "reset" {
		deep = r.st.executed%8 == 0
	}
	return r.check("after "+op.Kind, deep)
}

func vfShort(s string) string {
	if len(s) > 16 {
		return s[:16] + "..."
	}
	return s
}

func vfRunBufCase(c *vfBufCase) (st vfBufStats, sig, msg string) {
	dir := os.Getenv("VERIF_WORKDIR")
	if dir == "" {
		dir = os.TempDir()
	}
	r := &vfBufRun{c: c}
	defer debug.SetPanicOnFault(debug.SetPanicOnFault(true)) // a stale slice into a moved mapping: a panic of this case, not the death of the process
	defer func() {
		if p := recover(); p != nil {
			st = r.st
			sig, msg = "C11/panic", fmt.Sprintf("panic: %v", p)
		}
		if r.b != nil {
			_ = r.b.Release()
		}
	}()
	switch c.Mode {
	case "mmap":
		b, err := NewBufferTmp(dir, c.Capacity)
		if err != nil {
			panic(err)
		}
		r.b = b
	case "automap":
		r.b = NewBuffer(c.Capacity, "vf").WithAutoMmap(c.Threshold, dir)
	default:
		r.b = NewBuffer(c.Capacity, "vf")
	}
	if c.MaxSize > 0 {
		r.b = r.b.WithMaxSize(c.MaxSize)
	}
	if s, m := r.check("fresh buffer", true); s != "" {
		return r.st, s, m
	}
	for i := range c.Ops {
		r.st.executed = i + 1
		if c.Ops[i].Len > c.Capacity && c.Ops[i].Kind != "bulk" {
			r.st.biggerThanCap = true
		}
		if s, m := r.apply(&c.Ops[i]); s != "" {
			return r.st, s, m
		}
	}
	if s, m := r.check("at the end", true); s != "" {
		return r.st, s, m
	}
	for _, s := range r.slices {
		if len(s) == 0 {
			r.st.emptySlices++
		}
	}
	return r.st, "", ""
}

func vfGenBufLen(t *rapid.T, capacity int) int {
	switch rapid.IntRange(0, 9).Draw(t, "lenmode") {
	case 0:
		return 0
	case 1:
		return capacity + rapid.IntRange(1, 64).Draw(t, "len")
	case 2:
		return rapid.IntRange(65, 3000).Draw(t, "len")
	case 3:
		return rapid.IntRange(1, 3).Draw(t, "len")
	default:
		return rapid.IntRange(1, 64).Draw(t, "len")
	}
}

func vfGenBufCase(t *rapid.T) *vfBufCase {
	c := &vfBufCase{}
	c.Mode = rapid.SampledFrom([]string{"calloc", "calloc", "mmap", "automap", "automap"}).Draw(t, "mode")
	switch rapid.IntRange(0, 3).Draw(t, "capmode") {
	case 0:
		c.Capacity = rapid.IntRange(0, 70).Draw(t, "cap")
	case 1:
		c.Capacity = rapid.IntRange(0, 4096).Draw(t, "cap")
	default:
		c.Capacity = rapid.SampledFrom([]int{0, 63, 64, 65, 128, 256, 1024, 4096}).Draw(t, "cap")
	}
	if c.Mode == "automap" {
		c.Threshold = rapid.IntRange(64, 8192).Draw(t, "threshold")
	}
	c.SliceMode = rapid.IntRange(0, 2).Draw(t, "slicemode") > 0
	if rapid.IntRange(0, 3).Draw(t, "max") == 0 {
		c.MaxSize = rapid.IntRange(16, 3000).Draw(t, "maxsize")
	}
	alpha := rapid.SampledFrom([]int{0, 0, 1, 2, 3, 26}).Draw(t, "alpha")
	nops := rapid.IntRange(1, 40).Draw(t, "nops")
	bigSort := c.SliceMode && c.MaxSize == 0 && rapid.IntRange(0, 9).Draw(t, "bigsort") == 0
	nslices := 0
	for i := 0; i < nops; i++ {
		seed := rapid.Uint64().Draw(t, "seed")
		if !c.SliceMode {
			w := rapid.IntRange(0, 99).Draw(t, "op")
			kind := "write"
			switch {
			case w < 45:
			case w < 70:
				kind = "alloc"
			case w < 93:
				kind = "allocoff"
			default:
				kind = "reset"
			}
			op := vfBufOp{Kind: kind}
			if kind != "reset" {
				op.Len, op.Seed, op.Alpha = vfGenBufLen(t, c.Capacity), seed, alpha
			}
			c.Ops = append(c.Ops, op)
			continue
		}
		w := rapid.IntRange(0, 99).Draw(t, "op")
		switch {
		case w < 35:
			c.Ops = append(c.Ops, vfBufOp{Kind: "wslice", Len: vfGenBufLen(t, c.Capacity), Seed: seed, Alpha: alpha})
			nslices++
		case w < 55:
			c.Ops = append(c.Ops, vfBufOp{Kind: "salloc", Len: vfGenBufLen(t, c.Capacity), Seed: seed, Alpha: alpha})
			nslices++
		case w < 65 && c.MaxSize == 0:
			cnt := rapid.IntRange(2, 12).Draw(t, "bulkcount")
			if bigSort {
				base := rapid.SampledFrom([]int{1020, 1024, 2040, 2048, 3070, 3072}).Draw(t, "bulkbase")
				cnt = base + rapid.IntRange(0, 12).Draw(t, "bulkextra") - nslices%1024
				if cnt < 2 {
					cnt = base
				}
				bigSort = false
			}
			c.Ops = append(c.Ops, vfBufOp{Kind: "bulk", Count: cnt, Len: rapid.IntRange(0, 9).Draw(t, "bulklen"), Seed: seed, Alpha: alpha})
			nslices += cnt
		case w < 69:
			c.Ops = append(c.Ops, vfBufOp{Kind: "reset"})
			nslices = 0
		case w < 85:
			c.Ops = append(c.Ops, vfBufOp{Kind: "sort", Less: rapid.SampledFrom([]string{"lex", "rev", "lenlex", "first"}).Draw(t, "less")})
		default:
			from := rapid.IntRange(0, nslices).Draw(t, "from")
			to := rapid.IntRange(from, nslices).Draw(t, "to")
			c.Ops = append(c.Ops, vfBufOp{Kind: "sortbetween", From: from, To: to,
				Less: rapid.SampledFrom([]string{"lex", "rev", "lenlex", "first"}).Draw(t, "less")})
		}
	}
	return c
}

func TestVf_C11(t *testing.T) {
	ev := vfNewEvidence(t, "C11")
	rapid.Check(t, func(t *rapid.T) {
		c := vfGenBufCase(t)
		st, sig, msg := vfRunBufCase(c)
		if sig != "" {
			cc := *c
			cc.Ops = cc.Ops[:st.executed]
			t.Fatalf("%s", vfFail("C11", "buffer", sig, &cc, "%s", msg))
		}
		nt := st.grewWithData && (c.Mode != "automap" || st.switchedMmap)
		if st.sorts > 0 {
			nt = nt && (st.sortBig || st.sortSubrange)
		}
		h := vfNewHasher()
		h.Add(vfHash(c.Mode, c.Capacity, c.Threshold, c.MaxSize, c.SliceMode))
		for _, op := range c.Ops {
			h.Add(vfHash(op.Kind, op.Less))
			h.Add(uint64(op.Len))
			h.Add(op.Seed)
			h.Add(uint64(op.Count<<20 + op.From<<10 + op.To))
		}
		cl := []string{"mode=" + c.Mode}
		if c.SliceMode {
			cl = append(cl, "slice-program")
		} else {
			cl = append(cl, "raw-program")
		}
		if st.grewWithData {
			cl = append(cl, "growth-with-data")
		}
		if st.switchedMmap {
			cl = append(cl, "calloc->mmap-switch-with-data")
		}
		if st.sorts > 0 {
			cl = append(cl, "sort")
		}
		if st.sortBig {
			cl = append(cl, "sort>=1025-slices")
		}
		if st.sortSubrange {
			cl = append(cl, "sort-proper-subrange")
		}
		if c.MaxSize > 0 {
			cl = append(cl, "max-size")
		}
		if st.maxRefused > 0 {
			cl = append(cl, "max-size-refused-a-write")
		}
		if st.biggerThanCap {
			cl = append(cl, "write-larger-than-capacity")
		}
		if st.emptySlices > 0 {
			cl = append(cl, "empty-slices")
		}
		ev.Case(nt, h.Sum(), cl...)
		ev.Sample(nt, func() any { return c })
	})
}

func TestVfReplay_C11(t *testing.T) {
	var c vfBufCase
	if !vfLoadReplay(t, &c) {
		return
	}
	if _, sig, msg := vfRunBufCase(&c); sig != "" {
		t.Fatalf("%s", vfFail("C11", "replay", sig, &c, "%s", msg))
	}
}

func FuzzVf_C11(f *testing.F) {
	f.Fuzz(rapid.MakeFuzz(func(t *rapid.T) {
		c := vfGenBufCase(t)
		if st, sig, msg := vfRunBufCase(c); sig != "" {
			cc := *c
			cc.Ops = cc.Ops[:st.executed]
			t.Fatalf("%s", vfFail("C11", "buffer", sig, &cc, "%s", msg))
		}
	}))
}
