//go:build verif

package ristretto

// Re-writes racing the expiry sweep at full parallelism. Inside a synctest bubble the clock is virtual but the goroutines
// still run on all processors: the writers sleep until the very instant of the tick that finds the bucket due, so they
// and the applier's sweep become runnable together. The window inside the sweep's handling of ONE key (between its
// look at the entry and the removal) has no seam to park anything in; volume is the only way in: hundreds to thousands
// of expired entries in one sweep, each re-written with a later or no TTL by one of several goroutines.
//
// Oracle (everything fits, so nothing but expiry may remove an entry): every key whose re-write returned true is
// served with the re-written value after Wait; expiry processing never reports a re-written value (its expiration has
// not passed). Owned by C14 ("... never removed by expiry processing, even when the re-write races with a sweep") and
// C07 ("the TTL alone never hides an item before that instant") alike; each check runs its own copy.

import (
	"encoding/json"
	"fmt"
	"os"
	"runtime"
	"sync"
	"sync/atomic"
	"testing"
	"testing/synctest"
	"time"

	"pgregory.net/rapid"
)

type vfSweepStressCase struct {
	Keys      int  `json:"keys"`
	Writers   int  `json:"writers"`
	SameShard bool `json:"same_shard"`
	NoTTL     bool `json:"rewrite_without_ttl"` // else: rewrite with ttl 1h
	EvictSpin int  `json:"on_evict_yields"`
	LeadUs    int  `json:"writers_lead_us"` // writers wake this many (virtual) microseconds after the tick
}

type vfSweepStressStats struct {
	sweptOld       int // original values reported by expiry processing
	updatedInPlace int // re-writes that found the original entry still in the map
	rewritten      int
}

func vfRunSweepStress(c *vfSweepStressCase, owner string) (st vfSweepStressStats, sig, msg string) {
	oldBuf, oldBucket := setBufSize, bucketDurationSecs
	setBufSize, bucketDurationSecs = 1<<17, 1
	defer func() { setBufSize, bucketDurationSecs = oldBuf, oldBucket }()
	var mu sync.Mutex
	var evictedNew []uint64
	var sweptOld atomic.Int64
	const newBit = uint64(1) << 40
	cache, err := NewCache(&Config[uint64, uint64]{NumCounters: 1 << 16, MaxCost: 1 << 40, BufferItems: 64, IgnoreInternalCost: true,
		TtlTickerDurationInSec: 1,
		OnEvict: func(it *Item[uint64]) {
			if it.Value&newBit != 0 {
				mu.Lock()
				evictedNew = append(evictedNew, it.Value)
				mu.Unlock()
			} else {
				sweptOld.Add(1)
			}
			for i := 0; i < c.EvictSpin; i++ {
				runtime.Gosched()
			}
		},
	})
	if err != nil {
		panic(err)
	}
	defer cache.Close()
	key := func(i int) uint64 {
		if c.SameShard {
			return uint64(1 + 256*i) // all in one shard of the map (hash % 256)
		}
		return uint64(1 + i)
	}
	t0 := time.Now()
	for i := 0; i < c.Keys; i++ {
		if !cache.SetWithTTL(key(i), uint64(i+1), 1, 300*time.Millisecond) {
			return st, "HARNESS/initial-set-dropped", "write buffer full while filling"
		}
	}
	cache.Wait()
	// the entries expire 300 ms after their Set; their bucket is due at the first tick at or after the next full second
	due := t0.Truncate(time.Second).Add(time.Second)
	for !due.After(t0.Add(300 * time.Millisecond)) {
		due = due.Add(time.Second)
	}
	ok := make([]bool, c.Keys)
	inPlace := make([]bool, c.Keys)
	var wg sync.WaitGroup
	for w := 0; w < c.Writers; w++ {
		wg.Add(1)
		go func(w int) {
			defer wg.Done()
			time.Sleep(time.Until(due.Add(time.Duration(c.LeadUs) * time.Microsecond)))
			for i := w; i < c.Keys; i += c.Writers {
				ttl := time.Hour
				if c.NoTTL {
					ttl = 0
				}
				ok[i] = cache.SetWithTTL(key(i), newBit|uint64(i+1), 1, ttl)
				if v, found := cache.storedItems.Get(key(i), 0); found && v == newBit|uint64(i+1) {
					inPlace[i] = true // visible at once: the overwrite found the entry (a new insert waits for the applier)
				}
			}
		}(w)
	}
	wg.Wait()
	cache.Wait()
	st.sweptOld = int(sweptOld.Load())
	for i := 0; i < c.Keys; i++ {
		if !ok[i] {
			continue
		}
		st.rewritten++
		if inPlace[i] {
			st.updatedInPlace++
		}
		v, found := cache.Get(key(i))
		if !found || v != newBit|uint64(i+1) {
			return st, owner + "/rewritten-entry-lost-to-a-concurrent-sweep", fmt.Sprintf(
				"key %d: SetWithTTL(ttl=%v) returned true while the sweep of its old bucket was running, everything fits, nothing was deleted; after Wait Get returns (%d,%v), want (%d,true); the sweep reported %d old values",
				key(i), map[bool]string{true: "none", false: "1h"}[c.NoTTL], v, found, newBit|uint64(i+1), st.sweptOld)
		}
	}
	mu.Lock()
	defer mu.Unlock()
	if len(evictedNew) > 0 {
		return st, owner + "/sweep-reported-rewritten-value", fmt.Sprintf("expiry processing reported %d re-written values (first: key of value %#x) whose expiration has not passed", len(evictedNew), evictedNew[0])
	}
	return st, "", ""
}

func vfSweepStressTest(t *testing.T, owner string) {
	ev := vfNewEvidence(t, owner)
	rapid.Check(t, func(rt *rapid.T) {
		c := &vfSweepStressCase{
			Keys:      rapid.SampledFrom([]int{200, 1000, 4000, 8000}).Draw(rt, "keys"),
			Writers:   rapid.IntRange(1, 8).Draw(rt, "writers"),
			SameShard: rapid.Bool().Draw(rt, "sameShard"),
			NoTTL:     rapid.Bool().Draw(rt, "noTTL"),
			EvictSpin: rapid.SampledFrom([]int{0, 0, 1, 3}).Draw(rt, "evictSpin"),
			LeadUs:    rapid.SampledFrom([]int{0, 0, 1, 50, 500}).Draw(rt, "leadUs"),
		}
		var st vfSweepStressStats
		var sig, msg string
		synctest.Test(t, func(t *testing.T) { st, sig, msg = vfRunSweepStress(c, owner) })
		if sig != "" && sig[:len(owner)] == owner {
			rt.Fatalf("%s", vfFail(owner, "sweepstress", sig, c, "%s", msg))
		}
		if sig != "" {
			ev.Excluded("harness=" + sig)
			return
		}
		// non-trivial: the sweep and the re-writes really overlapped - some re-writes found the old entry, others came
		// after the sweep had removed it
		nt := st.updatedInPlace > 0 && st.updatedInPlace < st.rewritten && st.sweptOld > 0
		if nt {
			ev.Class("sweepstress:rewrites-on-both-sides-of-the-sweep", 1)
		}
		ev.Class("sweepstress:rewrites", st.rewritten)
		ev.Case(nt, vfHash(c.Keys, c.Writers, c.SameShard, c.NoTTL, c.EvictSpin, c.LeadUs), "sweepstress-case")
		ev.Sample(nt, func() any {
			return map[string]any{"sweepstress": c, "rewritten": st.rewritten, "found_old_entry": st.updatedInPlace, "old_values_swept": st.sweptOld}
		})
	})
}

func TestVf_C14_SweepStress(t *testing.T) { vfSweepStressTest(t, "C14") }
func TestVf_C07_SweepStress(t *testing.T) { vfSweepStressTest(t, "C07") }

// vfReplayOwner: the property a saved case belongs to (the stage runs under two checks).
func vfReplayOwner() string {
	var doc struct {
		Property string `json:"property"`
	}
	if b, err := os.ReadFile(os.Getenv("VERIF_REPLAY_FILE")); err == nil {
		_ = json.Unmarshal(b, &doc)
	}
	if doc.Property == "" {
		return "C14"
	}
	return doc.Property
}

func TestVfReplay_SweepStress(t *testing.T) {
	var c vfSweepStressCase
	if !vfLoadReplay(t, &c) {
		return
	}
	owner := vfReplayOwner()
	for i := 0; i < 10; i++ {
		var sig, msg string
		synctest.Test(t, func(t *testing.T) { _, sig, msg = vfRunSweepStress(&c, owner) })
		if sig != "" && sig[:len(owner)] == owner {
			t.Fatalf("%s", vfFail(owner, "sweepstress", sig, &c, "%s", msg))
		}
	}
}
