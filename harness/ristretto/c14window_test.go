//go:build verif

package ristretto

// Directed sub-check of C14 for the window *inside* the sweep's handling of one key (between its
// expiry check and the removal), which no callback exposes: the harness holds the policy mutex so
// that the sweep parks right there, performs the client re-write, and releases the mutex. Real
// goroutines and real time (a goroutine blocked on a mutex is not durably blocked, so the fake
// clock cannot be used). The wall clock is only used to reach the window; the verdict - "expiry
// processing reported a value whose current expiration has not passed" - does not depend on it.

import (
	"fmt"
	"sync"
	"testing"
	"time"
)

type vfWindowCase struct {
	Rewrite string `json:"rewrite"` // nottl | later | del-set | shorter
}

func vfRunWindow(wc vfWindowCase) (reached bool, sig, msg string) {
	var mu sync.Mutex
	type evt struct {
		tok uint64
		exp time.Time
	}
	var evicted []evt
	exits := map[uint64]int{}
	c, err := NewCache(&Config[uint64, uint64]{NumCounters: 100, MaxCost: 1 << 30, BufferItems: 64, TtlTickerDurationInSec: 1,
		OnEvict: func(it *Item[uint64]) {
			mu.Lock()
			evicted = append(evicted, evt{it.Value, it.Expiration})
			mu.Unlock()
		},
		OnExit: func(v uint64) { mu.Lock(); exits[v]++; mu.Unlock() },
	})
	if err != nil {
		panic(err)
	}
	defer c.Close()
	const k = 5
	c.SetWithTTL(k, 1, 1, 20*time.Millisecond)
	c.Wait()
	if _, ok := c.Get(k); !ok {
		return false, "", "" // not admitted: nothing to observe
	}
	// park the next sweeps behind the policy mutex, wait until the bucket of the entry is due
	c.cachePolicy.Lock()
	time.Sleep(time.Duration(bucketDurationSecs)*time.Second + 1300*time.Millisecond)
	var last uint64
	var lastExp time.Duration
	switch wc.Rewrite {
	case "nottl":
		c.Set(k, 2, 1)
		last = 2
	case "later":
		c.SetWithTTL(k, 2, 1, time.Hour)
		last, lastExp = 2, time.Hour
	case "shorter":
		c.SetWithTTL(k, 2, 1, 30*time.Second)
		last, lastExp = 2, 30*time.Second
	case "del-set":
		c.Del(k)
		c.Set(k, 2, 1)
		last = 2
	}
	_ = lastExp
	time.Sleep(50 * time.Millisecond)
	c.cachePolicy.Unlock()
	time.Sleep(100 * time.Millisecond)
	c.Wait()
	time.Sleep(50 * time.Millisecond)
	mu.Lock()
	defer mu.Unlock()
	for _, e := range evicted {
		if e.tok == 1 {
			reached = true
		}
		if e.tok == last {
			return true, "C14/sweep-removed-unexpired/rewritten-inside-key-window", fmt.Sprintf("rewrite=%s: expiry processing reported value %d, written %v before with ttl %v (0 = none)", wc.Rewrite, e.tok, "≈150ms", lastExp)
		}
	}
	if v, ok := c.Get(k); !ok || v != last {
		if exits[last] > 0 {
			return true, "C14/sweep-removed-unexpired/rewritten-inside-key-window", fmt.Sprintf("rewrite=%s: the re-written value %d was released (OnExit x%d) and Get returns (%d,%v)", wc.Rewrite, last, exits[last], v, ok)
		}
	}
	return reached || exits[1] > 0, "", ""
}

func TestVf_C14_Window(t *testing.T) {
	ev := vfNewEvidence(t, "C14")
	old := bucketDurationSecs
	bucketDurationSecs = 1
	defer func() { bucketDurationSecs = old }()
	cases := []vfWindowCase{{"nottl"}, {"later"}, {"shorter"}, {"del-set"}}
	reps := 2
	type res struct {
		wc       vfWindowCase
		reached  bool
		sig, msg string
	}
	out := make(chan res, len(cases)*reps)
	for r := 0; r < reps; r++ {
		for _, wc := range cases {
			go func(wc vfWindowCase) {
				reached, sig, msg := vfRunWindow(wc)
				out <- res{wc, reached, sig, msg}
			}(wc)
		}
	}
	for i := 0; i < len(cases)*reps; i++ {
		r := <-out
		ev.Case(r.reached, vfHash("window", r.wc.Rewrite), "window:"+r.wc.Rewrite)
		ev.Sample(r.reached, func() any { return map[string]any{"directed_window_case": r.wc, "old_value_was_swept": r.reached} })
		if r.sig != "" {
			t.Errorf("%s", vfFail("C14", "window", r.sig, r.wc, "%s", r.msg))
		}
	}
}

func TestVfReplay_C14Window(t *testing.T) {
	var wc vfWindowCase
	if !vfLoadReplay(t, &wc) {
		return
	}
	old := bucketDurationSecs
	bucketDurationSecs = 1
	defer func() { bucketDurationSecs = old }()
	for i := 0; i < 3; i++ {
		if _, sig, msg := vfRunWindow(wc); sig != "" {
			t.Fatalf("%s", vfFail("C14", "window", sig, wc, "%s", msg))
		}
	}
}
