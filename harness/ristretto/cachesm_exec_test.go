//go:build verif

package ristretto

// E1 "cachesm", part 2: the interpreter. Every client action is applied to the real
// cache and to the model; every discrepancy becomes a vfViol owned by the property
// whose sentence justifies the assertion.

import (
	"fmt"
	"runtime"
	"strings"
	"sync/atomic"
	"testing/synctest"
	"time"
)

// resync: if every violation of this step is a C03 accounting discrepancy, adopt the cache's own
// accounting so that the other properties' assertions can go on being evaluated.
func (s *vfSM) resync(vs []*vfViol) bool {
	for _, v := range vs {
		switch {
		case v.Owner == "C03" && strings.HasPrefix(v.Sig, "C03/remaining-cost"):
		case v.Sig == "MODEL/accounted-keys-differ-from-history":
		case v.Owner == "C17": // metric counters are observers: nothing in the model depends on them
		case v.Sig == "C13/capacity-held-by-nothing": // a consequence of the same accounting divergence
		default:
			return false
		}
	}
	s.acct = s.policyKeys()
	s.used = s.c.MaxCost() - s.c.RemainingCost()
	s.maxCost = s.c.MaxCost()
	return true
}

// fitsAlways: the configuration guarantees that all keys at their largest cost fit together
// (C06's premise), so no eviction and no capacity rejection may ever happen.
func (s *vfSM) fitsAlways() bool {
	per := int64(vfRoomyMaxCost)
	if !s.cfg.IgnoreIntern {
		per += itemSize
	}
	return s.cfg.MaxCost >= int64(s.cfg.Keys)*per && !s.bigCost
}

// alsoC06: when everything fits, C06 claims every observable result equals the reference map with its FIFO.
func (s *vfSM) alsoC06(v *vfViol) *vfViol {
	if s.fitsAlways() {
		v.Also = "C06"
	}
	return v
}

func (s *vfSM) peek(key uint64) (uint64, bool) {
	kh, _ := s.c.keyToHash(key)
	return s.c.storedItems.Get(kh, 0)
}

func (s *vfSM) fifoCap() int { return cap(s.c.setBuf) }

// classifyRead compares one read result with the model.
func (s *vfSM) classifyRead(what string, key, v uint64, ok bool, now time.Time) *vfViol {
	ent, in := s.resident[key]
	servedM, boundary := false, false
	if in {
		servedM, boundary = s.served(ent, now)
	}
	if ok {
		ti := s.toks[v]
		if ti == nil {
			return vfV("C01", "value-nobody-stored", "%s(%d) returned %d which no Set supplied", what, key, v)
		}
		if ti.key != key {
			return vfV("C01", "value-of-other-key", "%s(%d) returned %d which was set under key %d", what, key, v, ti.key)
		}
		if ti.exits > 0 && !s.replaying {
			return vfV("C02", "served-after-exit", "%s(%d) returned %d after it was passed to OnExit", what, key, v)
		}
		// second sentence of C02, from observations alone: this value was read, then a value written later was read
		// under the same key (the overwrite had taken effect), and now the older one is back. Values are numbered
		// in the order of their Set calls.
		if prev, has := s.lastRead[key]; has && v > prev {
			s.toks[prev].superseded = true
		}
		s.lastRead[key] = v
		if ti.superseded && !s.replaying {
			return vfV("C02", "older-value-served", "%s(%d) returned %d again after a value written later had been read under that key", what, key, v)
		}
		if in && ent.tok == v {
			if !servedM {
				return vfV("C07", "served-after-expiry", "%s(%d) returned %d at %v although it expired at %v", what, key, v, now.Format("15:04:05.000000000"), ent.exp.Format("15:04:05.000000000"))
			}
			if s.deleted[key] && len(s.fifo) == 0 {
				return s.alsoC06(vfV("C05", "hit-after-del-and-wait", "%s(%d) returned %d although Del(%d) completed, writes drained and no Set was issued since", what, key, v, key))
			}
			return nil
		}
		if s.deleted[key] && len(s.fifo) == 0 {
			return s.alsoC06(vfV("C05", "hit-after-del-and-wait", "%s(%d) returned %d although Del(%d) completed, writes drained and no Set was issued since", what, key, v, key))
		}
		if ti.state == tGone {
			// the reference expected this value to have left (without an OnExit having been seen, or the first check
			// above would have fired): the cache and the reference disagree about an earlier step, which is some other
			// assertion's business; no property speaks about this read by itself
			return vfV("MODEL", "read-of-value-the-reference-let-go", "%s(%d) returned %d which the reference had let go of (reference holds %v)", what, key, v, ent)
		}
		if s.tainted[key] {
			return nil
		}
		return vfV("C06", "unexpected-value", "%s(%d) returned %d (state %d); the reference map holds %+v (present %v)", what, key, v, ti.state, ent, in)
	}
	if tok, has := s.nowhere[key]; has && !in && len(s.fifo) == 0 && s.fitsAlways() && !s.replaying {
		return vfV("C06", "accepted-write-not-visible-after-wait", "%s(%d) missed with writes drained although Set(%d) returned true for value %d, the key was neither resident nor pending, and everything fits", what, key, key, tok)
	}
	if servedM && !boundary {
		if s.tainted[key] {
			return nil
		}
		if !ent.exp.IsZero() {
			return vfV("C07", "hidden-before-expiry", "%s(%d) missed at %v although %d expires only at %v", what, key, now.Format("15:04:05.000000000"), ent.tok, ent.exp.Format("15:04:05.000000000"))
		}
		v := vfV("C06", "spurious-loss", "%s(%d) missed although the reference map holds %d without TTL", what, key, ent.tok)
		if s.everTTL[key] {
			v.Also = "C07" // an earlier write of the key carried a TTL: "the TTL alone never hides an item"
		}
		return v
	}
	return nil
}

// vfNeedsReference: assertions whose verdict compares the cache with what the reference map, its accounting or its
// counters hold (as opposed to with the calls made and the callbacks and results observed). Once the reference had to
// be re-aligned with the cache (alignFifo) its contents are the result of a step it did not predict, so these are no
// longer evidence against a property; the others still are.
var vfNeedsReference = map[string]bool{
	"unexpected-value": true, "spurious-loss": true, "eviction-or-rejection-although-everything-fits": true,
	"overwrite-not-applied-immediately": true, "unexpected-immediate-store": true, "hidden-before-expiry": true,
	"iter-nonresident": true, "iter-missed-resident": true, "remaining-cost-vs-history": true, "over-capacity": true,
	"expired-entry-not-reclaimed": true, "sets-dropped": true, "evicted-value-not-resident": true,
	"no-onreject-for-turned-away-item": true, "sweep-reported-no-value": true,
}

func (s *vfSM) add(vs *[]*vfViol, v *vfViol) {
	if v == nil {
		return
	}
	if s.st.realigned > 0 && v.Owner != "MODEL" && v.Owner != "HARNESS" {
		name := v.Sig[len(v.Owner)+1:]
		if i := strings.Index(name, "/"); i >= 0 {
			name = name[:i]
		}
		if vfNeedsReference[name] {
			v = &vfViol{Owner: "MODEL", Sig: "MODEL/after-realignment:" + v.Sig, Msg: v.Msg}
		}
	}
	*vs = append(*vs, v)
}

// checkView probes every key through the store (no side effects on metrics or frequencies).
func (s *vfSM) checkView(vs *[]*vfViol) {
	now := time.Now()
	for k := uint64(1); k <= uint64(s.cfg.Keys); k++ {
		v, ok := s.peek(k)
		s.add(vs, s.classifyRead("Get", k, v, ok, now))
	}
}

func (s *vfSM) policyKeys() map[uint64]int64 {
	p := s.c.cachePolicy
	p.Lock()
	defer p.Unlock()
	out := map[uint64]int64{}
	for k, c := range p.evict.keyCosts {
		out[k] = c
	}
	return out
}

func (s *vfSM) mapKeys() map[uint64]uint64 {
	out := map[uint64]uint64{}
	sm := s.c.storedItems.(*shardedMap[uint64])
	for _, sh := range sm.shards {
		sh.RLock()
		for k, it := range sh.data {
			out[k] = it.value
		}
		sh.RUnlock()
	}
	return out
}

// checkAccounting: C03 (a) after every applied item.
func (s *vfSM) checkAccounting(vs *[]*vfViol) {
	rc := s.c.RemainingCost()
	pk := s.policyKeys()
	var sum int64
	for _, c := range pk {
		sum += c
	}
	if rc != s.c.MaxCost()-sum {
		s.add(vs, vfV("C03", "remaining-cost-identity", "RemainingCost()=%d but MaxCost %d - sum of accounted costs %d = %d", rc, s.c.MaxCost(), sum, s.c.MaxCost()-sum))
	}
	if s.c.MaxCost() != s.maxCost {
		s.add(vs, vfV("C03", "max-cost", "MaxCost()=%d, configured/updated value %d", s.c.MaxCost(), s.maxCost))
	}
	// the cost the cache accounts for a key must be the cost the history implies (explicit cost or Config.Cost, plus the
	// internal cost unless ignored). Keys that only one side knows are a matter of *which* keys are resident (C13, C02,
	// C04 ...), not of C03: the model then simply adopts the cache's view.
	keysDiffer := len(pk) != len(s.acct)
	mk := s.mapKeys()
	for k, mc := range s.acct {
		pc, ok := pk[k]
		if !ok {
			keysDiffer = true
			continue
		}
		if pc != mc {
			// only when cache and reference agree on which value is stored under the key: if they hold different values
			// an earlier step went differently, and the two costs are not costs of the same thing
			owner := "MODEL"
			for rk, e := range s.resident {
				if kh, _ := s.c.keyToHash(rk); kh == k && mk[k] == e.tok {
					owner = "C03"
				}
			}
			s.add(vs, vfV(owner, "remaining-cost-vs-history", "key %d is accounted with cost %d, the history of writes implies %d (RemainingCost()=%d, MaxCost %d)", k, pc, mc, rc, s.maxCost))
		}
	}
	if keysDiffer {
		s.add(vs, vfV("MODEL", "accounted-keys-differ-from-history", "accounted by cache: %v, by the history: %v", pk, s.acct))
	}
}

func (s *vfSM) iterate(stopAfter int) (got []uint64, extraAfterStop int) {
	stopped := false
	s.c.IterValues(func(v uint64) bool {
		if stopped {
			extraAfterStop++
			return true
		}
		got = append(got, v)
		if stopAfter > 0 && len(got) >= stopAfter {
			stopped = true
			return true
		}
		return false
	})
	return
}

func (s *vfSM) checkIter(vs *[]*vfViol, stopAfter int) {
	now := time.Now()
	got, extra := s.iterate(stopAfter)
	if extra > 0 {
		s.add(vs, vfV("C13", "iter-continues-after-stop", "IterValues called back %d more times after being asked to stop", extra))
	}
	seen := map[uint64]bool{}
	byTok := map[uint64]uint64{}
	for k, e := range s.resident {
		byTok[e.tok] = k
	}
	for _, v := range got {
		if seen[v] {
			s.add(vs, vfV("C13", "iter-duplicate", "IterValues visited value %d twice", v))
		}
		seen[v] = true
		k, ok := byTok[v]
		if !ok {
			ti := s.toks[v]
			switch {
			case ti == nil:
				s.add(vs, vfV("C01", "value-nobody-stored", "IterValues yielded %d which no Set supplied", v))
			case ti.exits > 0:
				s.add(vs, vfV("C02", "served-after-exit", "IterValues yielded %d after it was passed to OnExit", v))
			case s.tainted[ti.key]:
			default:
				s.add(vs, vfV("C13", "iter-nonresident", "IterValues yielded %d (key %d) which is not resident in the reference map", v, ti.key))
			}
			continue
		}
		if ok, _ := s.served(s.resident[k], now); !ok {
			s.add(vs, vfV("C07", "served-after-expiry", "IterValues yielded %d (key %d) which expired at %v, now %v", v, k, s.resident[k].exp, now))
		}
	}
	if stopAfter == 0 || len(got) < stopAfter {
		imk := s.mapKeys()
		for k, e := range s.resident {
			ok, boundary := s.served(e, now)
			kh, _ := s.c.keyToHash(k)
			if ok && !boundary && !seen[e.tok] && !s.tainted[k] && imk[kh] == e.tok { // (the map really holds it)
				// "IterValues visits each unexpired resident value exactly once" (C13); when the entry carries a TTL that
				// has not elapsed, the TTL hid it before its instant as well (C07)
				v := vfV("C13", "iter-missed-resident", "IterValues did not visit resident unexpired value %d (key %d)", e.tok, k)
				if !e.exp.IsZero() {
					v.Also = "C07"
				}
				s.add(vs, v)
			}
		}
	}
}

// checkDrained: assertions that hold whenever buffered writes have drained.
func (s *vfSM) checkDrained(vs *[]*vfViol) {
	if len(s.fifo) == 0 && len(s.c.setBuf) != 0 && !s.align(vs) {
		return // items the reference does not know: not "drained", and not a statement about Wait either
	}
	if len(s.fifo) != 0 {
		return
	}
	if n := len(s.c.setBuf); n != 0 {
		s.add(vs, vfV("C06", "buffer-not-drained", "%d items in the write buffer although the reference FIFO is empty", n))
	}
	pk, mk := s.policyKeys(), s.mapKeys()
	for k := range mk {
		if _, ok := pk[k]; !ok {
			s.add(vs, vfV("C13", "stored-but-not-accounted", "key %d is held in the map (value %d) but the capacity accounting does not charge it", k, mk[k]))
		}
	}
	for k := range pk {
		if _, ok := mk[k]; !ok {
			v := vfV("C13", "accounted-but-not-stored", "key %d is charged (cost %d) but not held in the map", k, pk[k])
			if pk[k] != 0 {
				// RemainingCost() then is not "MaxCost minus the sum of the costs of the resident keys" (C03, second sentence)
				v.Also = "C03"
			}
			s.add(vs, v)
		}
	}
	for k, e := range s.resident {
		if v, ok := mk[k]; (!ok || v != e.tok) && !s.tainted[k] {
			s.add(vs, vfV("MODEL", "map-differs-from-history", "key %d: map holds (%d,%v), history says %d", k, v, ok, e.tok))
		}
	}
	for k, v := range mk {
		if _, ok := s.resident[k]; !ok && !s.tainted[k] {
			s.add(vs, vfV("MODEL", "map-differs-from-history", "key %d: map holds %d, history says absent", k, v))
		}
	}
	s.checkIter(vs, 0)
	if len(s.resident) == 0 && len(s.acct) == 0 {
		if rc := s.c.RemainingCost(); rc != s.c.MaxCost() {
			s.add(vs, vfV("C13", "capacity-held-by-nothing", "everything was removed but RemainingCost()=%d != MaxCost %d", rc, s.c.MaxCost()))
		}
	}
	if rc := s.c.RemainingCost(); rc < 0 && !s.exempt {
		s.add(vs, vfV("C03", "over-capacity", "RemainingCost()=%d < 0 with writes drained, no cost-raising overwrite and MaxCost never lowered", rc))
	}
	// C05: "The deleted value is released through OnExit" - by the time writes have drained
	for _, t := range s.delRemoved {
		if ti := s.toks[t]; ti != nil && ti.exits == 0 {
			v := vfV("C05", "deleted-value-not-released", "value %d (key %d) was removed by Del (directly or through its tombstone), writes have drained, and OnExit never received it", t, ti.key)
			v.Also = "C04"
			s.add(vs, v)
		}
	}
	s.delRemoved = s.delRemoved[:0]
	for _, k := range vfSortedU64(s.deleted) {
		if !s.deleted[k] {
			continue
		}
		if v, ok := s.peek(k); ok {
			s.add(vs, s.alsoC06(vfV("C05", "hit-after-del-and-wait", "Get(%d) returns %d although Del completed, writes drained and no Set was issued since", k, v)))
		}
	}
	if len(s.resident) > 0 {
		s.st.drainedNonEmpty++
	}
	s.checkMetrics(vs)
}

func (s *vfSM) checkMetrics(vs *[]*vfViol) {
	m := s.c.Metrics
	if m == nil || !s.cfg.Metrics {
		return
	}
	if h, mi := m.Hits(), m.Misses(); h+mi != s.mGets {
		s.add(vs, vfV("C17", "hits-plus-misses", "Hits %d + Misses %d != %d Get calls since creation/last Clear", h, mi, s.mGets))
	} else if h != s.mHits {
		s.add(vs, vfV("C17", "hits", "Hits=%d but %d Gets found a value", h, s.mHits))
	}
	// "resident keys" are the keys the cache holds, i.e. the map (with writes drained the accounting has the same keys, C13)
	if d := m.KeysAdded() - m.KeysEvicted(); d != uint64(len(s.mapKeys())) {
		s.add(vs, vfV("C17", "keys-added-minus-evicted", "KeysAdded %d - KeysEvicted %d != %d resident keys (accounting charges %d keys)", m.KeysAdded(), m.KeysEvicted(), len(s.mapKeys()), len(s.policyKeys())))
	}
	if d := m.CostAdded() - m.CostEvicted(); d != uint64(s.c.MaxCost()-s.c.RemainingCost()) {
		s.add(vs, vfV("C17", "cost-added-minus-evicted", "CostAdded %d - CostEvicted %d = %d != MaxCost-RemainingCost = %d", m.CostAdded(), m.CostEvicted(), d, s.c.MaxCost()-s.c.RemainingCost()))
	}
	if m.SetsDropped() != s.mDropped {
		s.add(vs, vfV("C17", "sets-dropped", "SetsDropped=%d but %d new-key Sets were refused because the buffer was full", m.SetsDropped(), s.mDropped))
	}
	if g := m.GetsKept() + m.GetsDropped(); g > s.mGetsEver {
		s.add(vs, vfV("C17", "gets-kept-plus-dropped", "GetsKept+GetsDropped=%d exceeds %d Gets", g, s.mGetsEver))
	}
}

func (s *vfSM) checkWaiters(vs *[]*vfViol, owner string) {
	synctest.Wait()
	for id, w := range s.waiters {
		closed := false
		select {
		case <-w.done:
			closed = true
		default:
		}
		if w.release && !closed {
			s.add(vs, vfV(owner, "wait-not-released", "goroutine %d blocked in Wait() was not released although its marker was consumed", id))
		}
		if !w.release && closed {
			s.add(vs, vfV("C06", "wait-returned-early", "Wait() of goroutine %d returned while writes buffered before it are still pending", id))
		}
		if closed {
			delete(s.waiters, id)
		}
	}
}

// ---- model updates for client calls (shared by direct calls and the mid-sweep program) ----

func (s *vfSM) modelSet(op *vfOp, ok bool, observedUpd bool, now time.Time, vs *[]*vfViol) {
	if op.Cost > vfRoomyMaxCost {
		s.bigCost = true // from here on "the whole key set fits" is not a premise of this case
	}
	tok := op.Tok
	ti := s.toks[tok]
	ti.issued = s.calls
	ttl := time.Duration(op.TTL)
	if ttl < 0 {
		ti.state = tDropped
		if ok {
			s.add(vs, vfV("C07", "negative-ttl-accepted", "SetWithTTL(%d, ttl=%v) returned true", op.Key, ttl))
		}
		return
	}
	var exp time.Time
	if ttl > 0 {
		exp = now.Add(ttl)
		s.everTTL[op.Key] = true
	}
	ent, in := s.resident[op.Key]
	upd := in && (!s.cfg.ShouldUpdate || vfShouldUpdate(tok, ent.tok))
	refusedOverwrite := in && !upd
	if observedUpd != upd {
		// R1: "an overwrite of a resident key is visible to Get immediately" (and nothing else is stored at once).
		// The model follows what the cache did, so that later assertions of other properties stay meaningful.
		if upd {
			s.add(vs, vfV("C06", "overwrite-not-applied-immediately", "Set(%d) on a resident key (value %d): the new value %d is not in the map when Set returns", op.Key, ent.tok, tok))
		} else {
			s.add(vs, vfV("C06", "unexpected-immediate-store", "Set(%d): value %d is in the map when Set returns although the reference map %s", op.Key, tok,
				map[bool]string{true: "holds a value that ShouldUpdate protects", false: "does not hold the key"}[in]))
		}
		upd = observedUpd
	}
	kind := pNew
	if upd {
		kind = pUpd
		s.gone(ent.tok)
		s.resident[op.Key] = vfEnt{tok: tok, exp: exp}
		ti.state = tResident
		if !ent.exp.Equal(exp) && !ent.exp.IsZero() {
			s.st.ttlReplaced++
		}
	}
	room := len(s.fifo) < s.fifoCap()
	// (a write that ShouldUpdate refuses is neither a new-key Set nor an applied overwrite: no property states its return value)
	delete(s.nowhere, op.Key)
	if want := room || upd; ok != want && !refusedOverwrite {
		// No property states what Set returns when the write buffer has room or is full (C17 counts the refusals, C06
		// and C04 say what follows from "true"). If the cache's buffer does not hold what the reference FIFO holds, an
		// earlier step went differently and the case cannot be followed any further. Otherwise the reference follows
		// the answer: "true" without a place in the buffer is an accepted write that is nowhere - C06 (visible after
		// Wait) and C04 (released by Close) will speak about it in their own time.
		if s.bufBefore >= 0 && s.bufBefore != len(s.fifo) {
			s.add(vs, vfV("MODEL", "write-buffer-differs-from-reference", "Set(%d) returned %v; reference FIFO holds %d of %d, the cache's buffer held %d before the call", op.Key, ok, len(s.fifo), s.fifoCap(), s.bufBefore))
		} else if ok && !in && ttl == 0 {
			pending := false
			for _, p := range s.fifo {
				if p.key == op.Key {
					pending = true
				}
			}
			if !pending {
				s.nowhere[op.Key] = tok
			}
		}
	}
	s.deleted[op.Key] = false
	delete(s.swept, op.Key)
	if ok && room {
		if kind == pNew {
			ti.state = tPending
			if in {
				s.tainted[op.Key] = true // ShouldUpdate refused: travels as a duplicate insert
			}
			for _, p := range s.fifo {
				if p.kind == pNew && p.key == op.Key {
					s.tainted[op.Key] = true
				}
			}
		}
		s.fifo = append(s.fifo, vfPend{kind: kind, key: op.Key, tok: tok, cost: op.Cost, exp: exp})
		return
	}
	if !ok {
		if !upd {
			ti.state = tDropped
			if !room { // "refused because the write buffer was full"
				s.mDropped++
			}
			s.st.drops++
		}
		return
	}
	// ok without room: an overwrite whose cost update is lost; or a discrepancy already reported
	if !upd {
		ti.state = tDropped
	}
}

func (s *vfSM) modelDel(op *vfOp) {
	delete(s.nowhere, op.Key)
	if ent, in := s.resident[op.Key]; in {
		s.gone(ent.tok)
		delete(s.resident, op.Key)
		s.delRemoved = append(s.delRemoved, ent.tok)
	}
	for _, p := range s.fifo {
		if p.kind == pNew && p.key == op.Key {
			s.st.delWithBufferedInsert++
			break
		}
	}
	s.fifo = append(s.fifo, vfPend{kind: pDel, key: op.Key})
	s.deleted[op.Key] = true
	s.st.dels++
}

// ---- applying buffered items ----

func (s *vfSM) snapshotEst(inKey uint64) map[uint64]int64 {
	synctest.Wait()
	p := s.c.cachePolicy
	p.Lock()
	defer p.Unlock()
	est := map[uint64]int64{inKey: p.admit.Estimate(inKey)}
	for k := range s.acct {
		est[k] = p.admit.Estimate(k)
	}
	return est
}

func (s *vfSM) applyPend(p vfPend, evs []vfCB, est map[uint64]int64, vs *[]*vfViol) {
	var rejects, evicts []vfCB
	for _, e := range evs {
		switch e.kind {
		case vfCBReject:
			rejects = append(rejects, e)
		case vfCBEvict:
			evicts = append(evicts, e)
		}
	}
	unexpected := func() {
		if len(rejects)+len(evicts) > 0 {
			s.add(vs, vfV("MODEL", "unexpected-callback", "applying buffered item kind %d key %d produced OnReject x%d OnEvict x%d", p.kind, p.key, len(rejects), len(evicts)))
		}
	}
	switch p.kind {
	case pWait:
		unexpected()
		if w := s.waiters[p.wid]; w != nil {
			w.release = true
		}
	case pUpd:
		unexpected()
		if old, ok := s.acct[p.key]; ok {
			c := s.effCost(&p)
			s.setAcct(p.key, c)
			if c > old {
				s.exempt = true
				s.st.costRaising++
			} else if c < old {
				s.st.costLowering++
			}
			s.st.costChangeBefore = true
		}
	case pDel:
		unexpected()
		stillPending := false
		for _, q := range s.fifo {
			if q.kind == pNew && q.key == p.key {
				stillPending = true
			}
		}
		if !stillPending {
			delete(s.tainted, p.key)
		}
		s.delAcct(p.key)
		if ent, in := s.resident[p.key]; in {
			s.gone(ent.tok)
			delete(s.resident, p.key)
			s.delRemoved = append(s.delRemoved, ent.tok)
		}
		s.st.costChangeBefore = true
	case pNew:
		c := s.effCost(&p)
		rejected := false
		for _, r := range rejects {
			if r.tok == p.tok {
				rejected = true
			} else {
				s.add(vs, vfV("MODEL", "unexpected-callback", "applying the insert of value %d rejected value %d", p.tok, r.tok))
			}
		}
		// "remaining capacity" for C09 is MaxCost minus the costs of the resident keys (what C03 says RemainingCost() is)
		d := &vfDecision{MaxCost: s.maxCost, Costs: map[uint64]int64{}, Est: est, InKey: p.key, InCost: c, Added: !rejected}
		src := s.acct
		if s.preAcct != nil {
			src = s.preAcct // judge the decision against the population the policy really had (its agreement with the history is C03/C13's business)
		}
		for k, v := range src {
			d.Costs[k] = v
			d.Used += v
		}
		if est != nil {
			d.InEst = est[p.key]
		}
		for _, e := range evicts {
			d.Victims = append(d.Victims, e.key)
		}
		if c > s.maxCost && !rejected {
			if v, ok := s.peek(p.key); (ok && v == p.tok) || s.policyKeys()[p.key] == c {
				s.add(vs, vfV("C03", "too-large-admitted", "value %d with cost %d > MaxCost %d was admitted", p.tok, c, s.maxCost))
			}
		}
		if est != nil {
			dst, sig, msg := vfJudge(d)
			if sig == "C03/admitted-without-room" && s.c.RemainingCost() >= 0 {
				// the judge knows the victims from OnEvict; the cache's own accounting says room was made, so victims were
				// removed without being reported - that is about callbacks (C04 notices at Close), not about capacity
				s.add(vs, vfV("MODEL", "room-was-made-without-reported-evictions", "%s; RemainingCost() now %d", msg, s.c.RemainingCost()))
			} else if sig != "" {
				s.add(vs, &vfViol{Owner: sig[:3], Sig: sig, Msg: msg})
			} else if dst.kind == "already-resident" && s.preMap != nil {
				// "or its key is already resident": the accounting named the key. That is right while the key is in the
				// map, or while a Del of it has removed the entry and its marker is still on its way (the accounting
				// forgets the key when the marker arrives). Otherwise nothing is resident under that key.
				_, inMap := s.preMap[p.key]
				delPending := s.blockedDel != nil && !s.blockedDel.isWait && s.blockedDel.key == p.key
				for _, q := range s.fifo {
					if q.kind == pDel && q.key == p.key {
						delPending = true
					}
				}
				if !inMap && !delPending {
					s.add(vs, vfV("C09", "turned-away-as-resident-but-nothing-is-stored-under-the-key", "value %d (key %d) was turned away because the accounting names its key, but the map held nothing under it and no Del of it is on its way", p.tok, p.key))
				}
			}
			s.st.decisions = append(s.st.decisions, dst)
			if dst.evictions > 0 && !rejected {
				s.st.admissionsAfterEvict++
			}
		}
		_, dup := s.acct[p.key]
		if s.fitsAlways() && c <= s.maxCost && !dup && (len(evicts) > 0 || rejected) {
			s.add(vs, vfV("C06", "eviction-or-rejection-although-everything-fits", "MaxCost %d holds all %d keys at their largest cost, yet applying the insert of value %d (cost %d) evicted %d entries (rejected: %v); RemainingCost()=%d",
				s.maxCost, s.cfg.Keys, p.tok, c, len(evicts), rejected, s.c.RemainingCost()))
		}
		switch {
		case c > s.maxCost:
		case dup:
			if c > s.acct[p.key] {
				s.exempt = true
			}
			s.setAcct(p.key, c)
			s.st.costChangeBefore = true
		default:
			seen := map[uint64]bool{}
			for _, e := range evicts {
				if seen[e.key] {
					continue
				}
				seen[e.key] = true
				cost, ok := s.delAcct(e.key)
				if !ok {
					continue // reported by the judge
				}
				s.st.evictions++
				if e.cost != cost {
					s.add(vs, vfV("C03", "victim-cost", "OnEvict reports key %d with cost %d, accounted cost was %d", e.key, e.cost, cost))
				}
				ent, in := s.resident[e.key]
				if e.tok != 0 {
					if !in || ent.tok != e.tok {
						s.add(vs, vfV("C04", "evicted-value-not-resident", "OnEvict reports value %d for key %d, the reference map holds %+v (present %v)", e.tok, e.key, ent, in))
					} else {
						s.gone(ent.tok)
						delete(s.resident, e.key)
					}
				}
			}
		}
		if !rejected && c <= s.maxCost && !dup {
			s.setAcct(p.key, c)
			s.resident[p.key] = vfEnt{tok: p.tok, exp: p.exp}
			s.toks[p.tok].state = tResident
			s.toks[p.tok].lag = s.calls - s.toks[p.tok].issued
			if !p.exp.IsZero() && !p.exp.After(time.Now()) {
				s.st.lateApplied++
			}
		} else {
			if !rejected {
				// neither admitted by the rules nor reported: follow the cache (it kept the value?)
				s.add(vs, vfV("C09", "no-onreject-for-turned-away-item", "value %d (key %d, cost %d) had to be turned away (too large or key resident) but OnReject did not fire", p.tok, p.key, c))
			}
			s.gone(p.tok)
			if rejected {
				s.st.rejections++
			}
		}
	}
}

// alignFifo compares the cache's write buffer with the reference FIFO before an item is applied. On the unchanged
// code they always hold the same sequence. When they do not, an earlier call went differently (a marker that was never
// enqueued, a Set that was accepted but not buffered ...): entries only the reference holds are dropped from it, so
// that the assertions that follow speak about the step the cache really takes; what was dropped is left to the
// assertions that look at observations (C05 hit after Del and Wait, C06 accepted write not visible, C04 never
// released). An item only the cache holds cannot be interpreted: the case ends as diverged.
func (s *vfSM) alignFifo(vs *[]*vfViol) bool {
	if s.closed {
		return true
	}
	if s.blockedDel != nil {
		// a sender is parked on the full buffer according to the reference: draining would let its item jump the
		// queue, so only the fill level can be compared
		if n := len(s.c.setBuf); n != cap(s.c.setBuf) {
			s.add(vs, vfV("MODEL", "write-buffer-not-full-although-reference-has-a-parked-sender", "the cache's buffer holds %d of %d", n, cap(s.c.setBuf)))
			return false
		}
		return true
	}
	items := s.drainBuf()
	for _, it := range items {
		s.c.setBuf <- it
	}
	match := func(p vfPend, it *Item[uint64]) bool {
		switch {
		case it.wait != nil:
			return p.kind == pWait
		case it.flag == itemDelete:
			kh, _ := s.c.keyToHash(p.key)
			return p.kind == pDel && kh == it.Key
		case it.flag == itemNew:
			return p.kind == pNew && p.tok == it.Value
		case it.flag == itemUpdate:
			return p.kind == pUpd && p.tok == it.Value
		}
		return false
	}
	same := len(items) == len(s.fifo)
	for i := 0; same && i < len(items); i++ {
		same = match(s.fifo[i], items[i])
	}
	if same {
		return true
	}
	var out []vfPend
	j := 0
	for _, it := range items {
		found := -1
		for q := j; q < len(s.fifo); q++ {
			if match(s.fifo[q], it) {
				found = q
				break
			}
		}
		if found < 0 {
			s.add(vs, vfV("MODEL", "write-buffer-holds-item-unknown-to-reference", "buffered item flag %d key %d value %d has no counterpart in the reference FIFO %v", it.flag, it.Key, it.Value, s.fifo))
			return false
		}
		for _, d := range s.fifo[j:found] {
			if !s.dropPend(d, vs) {
				return false
			}
		}
		out = append(out, s.fifo[found])
		j = found + 1
	}
	for _, d := range s.fifo[j:] {
		if !s.dropPend(d, vs) {
			return false
		}
	}
	s.fifo = out
	s.st.realigned++
	s.realigned = true
	return true
}

// dropPend: the reference held an entry that the cache's write buffer does not hold.
func (s *vfSM) dropPend(d vfPend, vs *[]*vfViol) bool {
	switch d.kind {
	case pWait:
		s.add(vs, vfV("MODEL", "wait-marker-not-in-write-buffer", "the reference FIFO holds a Wait marker (goroutine %d) that the cache's buffer does not hold", d.wid))
		return false
	case pNew:
		if ti := s.toks[d.tok]; ti != nil {
			ti.state = tDropped
		}
		if _, in := s.resident[d.key]; !in && d.exp.IsZero() {
			s.nowhere[d.key] = d.tok
		}
	}
	return true
}

// align: alignFifo plus what follows from it.
func (s *vfSM) align(vs *[]*vfViol) bool {
	if !s.halted {
		return true
	}
	if !s.alignFifo(vs) {
		s.fifo = nil // the case ends here as diverged; callers that loop until the FIFO is empty must not spin
		return false
	}
	if s.realigned {
		// the numbers the cache itself keeps are the starting point for what follows
		s.acct = s.policyKeys()
		s.used = s.c.MaxCost() - s.c.RemainingCost()
		s.realigned = false
	}
	return true
}

func (s *vfSM) stepOne(vs *[]*vfViol) {
	if !s.align(vs) {
		return
	}
	if len(s.fifo) == 0 {
		return
	}
	p := s.fifo[0]
	var est map[uint64]int64
	if p.kind == pNew {
		est = s.snapshotEst(p.key)
	}
	s.preAcct = nil
	s.preMap = nil
	if p.kind == pNew {
		s.preAcct = s.policyKeys() // what the cache itself charges right before the decision
		s.preMap = s.mapKeys()
	}
	s.stepOneReal()
	s.fifo = s.fifo[1:]
	if s.twin != nil {
		s.twin.stepOne()
		s.compareTwin(vs, "applying a buffered item")
	}
	if bd := s.blockedDel; bd != nil && bd.isWait {
		s.blockedDel = nil
		s.fifo = append(s.fifo, vfPend{kind: pWait, wid: bd.wid})
	} else if bd != nil {
		s.blockedDel = nil
		s.fifo = append(s.fifo, vfPend{kind: pDel, key: bd.key})
		synctest.Wait()
		select {
		case <-bd.done:
			s.deleted[bd.key] = true
			for _, q := range s.fifo {
				if q.kind == pNew && q.key == bd.key {
					s.deleted[bd.key] = false // a Set of the key was issued after the Del started; be conservative
				}
			}
		default:
			s.add(vs, vfV("C08", "del-still-blocked", "Del(%d) is still blocked although the applier freed a slot", bd.key))
		}
	}
	evs, v := s.absorb()
	s.add(vs, v)
	s.applyPend(p, evs, est, vs)
	s.checkAccounting(vs)
}

// sweepEvict validates and follows one eviction reported by expiry processing.
func (s *vfSM) sweepEvict(e vfCB, now time.Time, vs *[]*vfViol, midSweep bool) {
	ent, in := s.resident[e.key]
	if e.tok == 0 {
		if in {
			s.add(vs, vfV("C14", "sweep-reported-no-value", "expiry processing reported key %d without a value while the reference map holds %d", e.key, ent.tok))
		}
		if _, ok := s.acct[e.key]; ok && e.cost >= 0 {
			s.delAcct(e.key)
		}
		return
	}
	if !in || ent.tok != e.tok {
		s.add(vs, vfV("MODEL", "sweep-removed-nonresident", "expiry processing reported value %d for key %d; the reference map holds %+v (present %v)", e.tok, e.key, ent, in))
		return
	}
	cls := "plain"
	if midSweep {
		cls = "rewritten-during-sweep"
	}
	// an entry that expiry processing removes although its TTL has not elapsed (or it has none) also breaks C07 ("the TTL
	// alone never hides an item before that instant") and, where everything fits, C06 ("stays retrievable until ...")
	also := "C07"
	if s.fitsAlways() {
		also = "C07,C06"
	}
	attachedPassed := !e.exp.IsZero() && !e.exp.After(now)
	switch {
	case (ent.exp.IsZero() || ent.exp.After(now)) && attachedPassed && !e.exp.Equal(ent.exp):
		// the expiration the cache had attached to the entry (reported with the eviction) has passed, so this sweep did
		// what C14 asks of it; but it is not the instant "SetWithTTL time + ttl": the lifetime was not honoured
		v := vfV("C07", "removed-by-expiry-before-its-instant/"+cls, "expiry processing removed value %d (key %d) at %v: the cache had attached the expiration %v, the write's ttl puts it at %v (zero: none)", e.tok, e.key, now.Format("15:04:05.000000000"), e.exp.Format("15:04:05.000000000"), ent.exp.Format("15:04:05.000000000"))
		if s.fitsAlways() {
			v.Also = "C06"
		}
		s.add(vs, v)
	case ent.exp.IsZero():
		v := vfV("C14", "sweep-removed-entry-without-ttl/"+cls, "expiry processing removed value %d (key %d) whose current write carries no TTL", e.tok, e.key)
		v.Also = also
		s.add(vs, v)
	case ent.exp.After(now):
		v := vfV("C14", "sweep-removed-unexpired/"+cls, "expiry processing removed value %d (key %d) at %v although its current expiration is %v", e.tok, e.key, now.Format("15:04:05.000000000"), ent.exp.Format("15:04:05.000000000"))
		v.Also = also
		s.add(vs, v)
	}
	cost, ok := s.delAcct(e.key)
	if ok && cost != e.cost {
		s.add(vs, vfV("C14", "sweep-evict-cost", "expiry processing reported key %d with cost %d, accounted %d", e.key, e.cost, cost))
	}
	s.gone(ent.tok)
	delete(s.resident, e.key)
	s.swept[e.key] = true
}

// ---- the actions ----

func (s *vfSM) exec(op *vfOp) (vs []*vfViol) {
	now := time.Now()
	if !s.align(&vs) {
		return
	}
	if s.blockedDel != nil {
		switch op.Kind {
		case "get", "getttl", "iter", "step", "advance", "wait", "quiesce":
		default:
			return // while a Del is blocked only reads and applier progress are generated
		}
		if (op.Kind == "wait" || op.Kind == "quiesce") && len(s.fifo) >= s.fifoCap() {
			op.Kind, op.N = "step", 1
		}
	}
	switch op.Kind {
	case "set", "del", "get", "getttl", "iter":
		s.calls++
	}
	switch op.Kind {
	case "set":
		op.Tok = s.newTok(op.Key)
		s.bufBefore = len(s.c.setBuf)
		ok := s.c.SetWithTTL(op.Key, op.Tok, op.Cost, time.Duration(op.TTL))
		op.Res = fmt.Sprint(ok)
		_, v := s.absorb()
		s.add(&vs, v)
		pv, pok := s.peek(op.Key)
		s.modelSet(op, ok, pok && pv == op.Tok, now, &vs)
		s.bufBefore = -1
		if s.twin != nil {
			if tok := s.twin.c.SetWithTTL(op.Key, op.Tok, op.Cost, time.Duration(op.TTL)); tok != ok {
				s.add(&vs, vfV("C15", "cleared-cache-differs-from-a-fresh-one", "Set(%d) returns %v on the cache that was cleared and %v on a new cache that received the same calls since the Clear", op.Key, ok, tok))
				s.dropTwin()
			}
			s.compareTwin(&vs, "Set")
		}
	case "del":
		if len(s.fifo) >= s.fifoCap() {
			// Del blocks until the applier frees a slot: issue it from its own goroutine
			done := make(chan struct{})
			go func() {
				s.c.Del(op.Key)
				close(done)
			}()
			synctest.Wait()
			_, v := s.absorb()
			s.add(&vs, v)
			s.modelDel(op)
			s.fifo = s.fifo[:len(s.fifo)-1] // the tombstone is not in the buffer yet
			s.st.delOnFullBuffer++
			s.dropTwin() // not mirrored
			select {
			case <-done:
				// returned although the buffer is full: nothing can have been enqueued
			default:
				s.deleted[op.Key] = false // not returned yet
				s.blockedDel = &vfBlockedDel{key: op.Key, done: done}
			}
			break
		}
		s.c.Del(op.Key)
		_, v := s.absorb()
		s.add(&vs, v)
		s.modelDel(op)
		if s.twin != nil {
			s.twin.c.Del(op.Key)
			s.compareTwin(&vs, "Del")
		}
	case "get":
		v, ok := s.c.Get(op.Key)
		op.Res = fmt.Sprintf("%d,%v", v, ok)
		s.mGets++
		s.mGetsEver++
		if ok {
			s.mHits++
			if ti := s.toks[v]; ti != nil && ti.lag >= 1 {
				s.st.lateHit++
			}
		}
		s.add(&vs, s.classifyRead("Get", op.Key, v, ok, now))
		if ent, in := s.resident[op.Key]; in && !ent.exp.IsZero() {
			if d := now.Sub(ent.exp); d >= -1 && d <= 1 {
				s.st.nearExpiryObs++
			}
		}
		return // reads do not change the state: skip the expensive checks
	case "getttl":
		d, ok := s.c.GetTTL(op.Key)
		op.Res = fmt.Sprintf("%v,%v", d, ok)
		ent, in := s.resident[op.Key]
		servedM, boundary := false, false
		if in {
			servedM, boundary = s.served(ent, now)
		}
		switch {
		case s.tainted[op.Key]:
		case ok && !in:
			s.add(&vs, vfV("C06", "unexpected-value", "GetTTL(%d) found an entry, the reference map has none", op.Key))
		case ok && !servedM:
			s.add(&vs, vfV("C07", "served-after-expiry", "GetTTL(%d)=(%v,true) at %v, expired at %v", op.Key, d, now, ent.exp))
		case ok && ent.exp.IsZero() && d != 0:
			s.add(&vs, vfV("C07", "getttl-duration", "GetTTL(%d)=%v for an entry written without TTL", op.Key, d))
		case ok && !ent.exp.IsZero() && d != ent.exp.Sub(now):
			s.add(&vs, vfV("C07", "getttl-duration", "GetTTL(%d)=%v, remaining time is %v", op.Key, d, ent.exp.Sub(now)))
		case !ok && servedM && !boundary:
			owner := "C06"
			if !ent.exp.IsZero() {
				owner = "C07"
			}
			s.add(&vs, vfV(owner, "hidden-before-expiry", "GetTTL(%d) reports absent at %v, reference holds %+v", op.Key, now, ent))
		}
		if in && !ent.exp.IsZero() {
			if dd := now.Sub(ent.exp); dd >= -1 && dd <= 1 {
				s.st.nearExpiryObs++
			}
		}
		return
	case "iter":
		s.checkIter(&vs, op.N)
		return
	case "step":
		n := op.N
		for i := 0; i < n && len(s.fifo) > 0; i++ {
			s.stepOne(&vs)
		}
		s.checkWaiters(&vs, "C06")
	case "wait":
		// the real Wait() in its own goroutine, then exactly the items in front of its marker
		if len(s.fifo) >= 2 {
			s.st.waitWith2++
		}
		if len(s.fifo) >= s.fifoCap() {
			if s.blockedDel != nil {
				return
			}
			s.parkBlocked()
		} else {
			s.park()
		}
		for len(s.fifo) > 0 {
			s.stepOne(&vs)
		}
		s.checkWaiters(&vs, "C06")
	case "park":
		if len(s.fifo) >= s.fifoCap() {
			s.parkBlocked()
		} else {
			s.park()
		}
	case "advance":
		time.Sleep(time.Duration(op.D))
		return
	case "sweep":
		s.doSweep(nil, 0, &vs)
	case "sweepwith":
		s.doSweep(op.Prog, op.J, &vs)
	case "quiesce":
		for len(s.fifo) > 0 {
			s.stepOne(&vs)
		}
		period := time.Duration(s.cfg.TickerSecs) * time.Second / 2
		for i := 0; i < 2; i++ {
			time.Sleep(3*time.Duration(s.cfg.BucketSecs)*time.Second + 2*period)
			s.doSweep(nil, 0, &vs)
		}
		lim := time.Now().Add(-2 * time.Duration(s.cfg.BucketSecs) * time.Second)
		qmk, qpk := s.mapKeys(), s.policyKeys()
		for k, e := range s.resident {
			kh, _ := s.c.keyToHash(k)
			_, charged := qpk[kh]
			if held := qmk[kh] == e.tok; !held && !charged {
				continue // neither held nor charged: whatever the reference believes, nothing is left to reclaim
			}
			if !e.exp.IsZero() && e.exp.Before(lim) {
				s.add(&vs, vfV("C14", "expired-entry-not-reclaimed", "value %d (key %d) expired at %v and is still held (and charged) at %v after two sweeps with an idle applier", e.tok, k, e.exp.Format("15:04:05"), time.Now().Format("15:04:05")))
			}
		}
		// "its capacity released": a key whose entry expiry processing removed, and which was not written again,
		// is no longer charged once writes have drained
		pk := s.policyKeys()
		for _, k := range vfSortedU64(s.swept) {
			if _, in := s.resident[k]; in || !s.swept[k] {
				continue
			}
			if c, charged := pk[k]; charged && c != 0 { // a key charged nothing holds no capacity (that ghost is C13's)
				s.add(&vs, vfV("C14", "capacity-of-expired-entry-not-released", "key %d: its entry was removed by expiry processing and not written since, writes have drained, yet %d units of capacity are still charged to it", k, c))
			}
		}
		s.checkWaiters(&vs, "C06")
	case "umc":
		s.maxCost += op.Cost
		if s.fitsAlways() {
			per := int64(vfRoomyMaxCost)
			if !s.cfg.IgnoreIntern {
				per += itemSize
			}
			if s.maxCost < int64(s.cfg.Keys)*per {
				s.bigCost = true // (same effect: the premise "everything fits" is gone for the rest of the case)
			}
		}
		s.c.UpdateMaxCost(s.maxCost)
		if s.twin != nil {
			s.twin.c.UpdateMaxCost(s.maxCost)
		}
	case "clear":
		s.doClear(false, &vs)
	case "clearlive":
		s.doClear(true, &vs)
	default:
		panic("unknown op " + op.Kind)
	}
	s.checkAccounting(&vs)
	s.checkView(&vs)
	s.checkDrained(&vs)
	return
}

// parkBlocked: Wait() called while the buffer is full; its marker cannot be enqueued yet.
func (s *vfSM) parkBlocked() {
	id := s.nextWid
	s.nextWid++
	w := &vfWaiter{done: make(chan struct{})}
	s.waiters[id] = w
	go func() {
		s.c.Wait()
		close(w.done)
	}()
	synctest.Wait()
	s.dropTwin() // not mirrored
	s.st.waitOnFullBuffer++
	select {
	case <-w.done:
		// returned with writes still pending: checkWaiters reports it (release is false)
	default:
		s.blockedDel = &vfBlockedDel{isWait: true, wid: id, done: w.done}
	}
}

func (s *vfSM) park() {
	id := s.nextWid
	s.nextWid++
	w := &vfWaiter{done: make(chan struct{})}
	s.waiters[id] = w
	go func() {
		s.c.Wait()
		close(w.done)
	}()
	synctest.Wait()
	s.fifo = append(s.fifo, vfPend{kind: pWait, wid: id})
	if s.twin != nil {
		s.twin.c.setBuf <- &Item[uint64]{wait: make(chan struct{})} // the same marker in the twin's buffer
	}
}

func (s *vfSM) doSweep(prog []vfOp, j int, vs *[]*vfViol) {
	tick := s.tickPending()
	s.mu.Lock()
	s.armedProg, s.armedJ, s.sweepEvictN, s.progRan, s.progOps = nil, 0, 0, false, nil
	if prog != nil && len(s.fifo) == 0 && tick {
		// the program's writes are applied by the same applier run right after the sweep; they
		// must not need room, otherwise policy evictions could not be told from sweep evictions
		need := s.used
		for i := range prog {
			if prog[i].Kind == "set" {
				pp := vfPend{kind: pNew, tok: prog[i].Tok, cost: prog[i].Cost}
				need += s.effCost(&pp)
			}
		}
		if need <= s.maxCost {
			s.armedProg, s.armedJ = prog, j
		}
	}
	s.mu.Unlock()
	now := time.Now()
	if s.twin != nil {
		if s.armedProg != nil {
			s.dropTwin() // writes from inside the sweep are not mirrored
		} else if tick {
			s.twin.c.storedItems.Cleanup(s.twin.c.cachePolicy, nil)
		}
	}
	s.sweepReal()
	s.mu.Lock()
	s.armedProg = nil
	s.mu.Unlock()
	if s.progRan {
		for i := range s.progOps {
			if po := &s.progOps[i]; po.Kind == "set" && strings.HasPrefix(po.Res, "true") {
				s.toks[po.Tok].state = tPending // accepted; the model replays the call at the marker below
			}
		}
	}
	evs, v := s.absorb()
	s.add(vs, v)
	removed, mid := 0, false
	var rejects []vfCB
	for _, e := range evs {
		switch e.kind {
		case vfCBProg:
			mid = true
			for i := range s.progOps {
				po := &s.progOps[i]
				switch po.Kind {
				case "set":
					s.modelSet(po, strings.HasPrefix(po.Res, "true"), strings.HasSuffix(po.Res, "+upd"), now, vs)
					s.st.midSweepRewrites++
				case "del":
					s.modelDel(po)
				case "get":
					var gv uint64
					var gok bool
					fmt.Sscanf(po.Res, "%d,%v", &gv, &gok)
					s.mGets++
					s.mGetsEver++
					if gok {
						s.mHits++
					}
					// exits seen later in this sweep are already counted: only the model comparison applies here
					s.replaying = true
					s.add(vs, s.classifyRead("Get (during sweep)", po.Key, gv, gok, now))
					s.replaying = false
				case "iter":
					// only what speaks about a yielded value by itself: provenance and expiry (the entries of the bucket
					// that the sweep has not reached yet are expired and must not be enumerated)
					for _, f := range strings.Split(po.Res, ",") {
						if f == "" {
							continue
						}
						var v uint64
						fmt.Sscanf(f, "%d", &v)
						ti := s.toks[v]
						if ti == nil {
							s.add(vs, vfV("C01", "value-nobody-stored", "IterValues (during sweep) yielded %d which no Set supplied", v))
							continue
						}
						if ent, in := s.resident[ti.key]; in && ent.tok == v {
							if served, _ := s.served(ent, now); !served {
								s.add(vs, vfV("C07", "served-after-expiry", "IterValues (during sweep) yielded %d (key %d) at %v although it expired at %v", v, ti.key, now.Format("15:04:05.000000000"), ent.exp.Format("15:04:05.000000000")))
							}
						}
					}
				}
			}
		case vfCBEvict:
			if !tick {
				s.add(vs, vfV("HARNESS", "sweep-without-tick", "OnEvict(key %d) fired with an idle applier and no expiry tick", e.key))
			}
			s.sweepEvict(e, now, vs, mid)
			removed++
		case vfCBReject:
			rejects = append(rejects, e)
		}
	}
	if removed > 0 {
		s.st.sweepsWithEvict++
		if mid || s.st.lateApplied > 0 {
			s.st.sweepMixed++
		}
	}
	// items the program buffered were consumed by the same applier run, after the sweep
	for s.progRan && len(s.fifo) > 0 {
		p := s.fifo[0]
		s.fifo = s.fifo[1:]
		var mine []vfCB
		for _, r := range rejects {
			if r.tok == p.tok && p.kind == pNew {
				mine = append(mine, r)
			}
		}
		s.applyPend(p, mine, nil, vs)
	}
	if prog != nil && !s.progRan {
		for i := range prog {
			if prog[i].Kind == "set" {
				if ti := s.toks[prog[i].Tok]; ti != nil {
					ti.state = tDropped // never issued
				}
			}
		}
	}
}

func (s *vfSM) liveToks() []uint64 {
	var out []uint64
	for t, ti := range s.toks {
		if ti.state == tPending || ti.state == tResident {
			out = append(out, t)
		}
	}
	return out
}

func (s *vfSM) standIn() {
	go func() {
		<-s.c.stop
		s.c.done <- struct{}{}
	}()
}

func (s *vfSM) doClear(live bool, vs *[]*vfViol) {
	newBuf, otherBuf := false, false
	for _, p := range s.fifo {
		if p.kind == pNew {
			newBuf = true
		} else if p.kind == pUpd || p.kind == pDel {
			otherBuf = true
		}
	}
	if newBuf {
		s.st.clearBufferedNew = true
	}
	if otherBuf {
		s.st.clearBufferedOther = true
	}
	s.dropTwin()
	liveBefore := s.liveToks()
	synctest.Wait() // access batches already handed to the policy goroutine are absorbed before Clear, not after it
	s.drainTick()   // the applier restarted by Clear must not find a tick: whether it would take it before our halt is a coin flip
	if live {
		s.resume()
	} else {
		s.standIn()
	}
	s.c.Clear()
	s.halt()
	_, v := s.absorb()
	s.add(vs, v)
	for _, t := range liveBefore {
		ti := s.toks[t]
		if ti.exits != 1 {
			// C04: "exactly once, no later than the return of the next Clear or Close"
			s.add(vs, &vfViol{Owner: "C04", Sig: "C04/not-released-by-clear", Msg: fmt.Sprintf("value %d (key %d, state %d) was accepted before Clear and has %d OnExit calls after Clear returned", t, ti.key, ti.state, ti.exits)})
		}
		ti.state = tGone
	}
	for _, p := range s.fifo {
		if p.kind == pWait {
			if w := s.waiters[p.wid]; w != nil {
				w.release = true
			}
		}
	}
	s.fifo = nil
	s.resident = map[uint64]vfEnt{}
	s.acct = map[uint64]int64{}
	s.used = 0
	s.exempt = false
	s.tainted = map[uint64]bool{}
	s.deleted = map[uint64]bool{}
	s.swept = map[uint64]bool{}
	s.mGets, s.mHits, s.mDropped = 0, 0, 0
	s.st.clears++
	// C15: fresh after Clear
	for k := uint64(1); k <= uint64(s.cfg.Keys); k++ {
		if v, ok := s.peek(k); ok {
			s.add(vs, vfV("C15", "not-empty-after-clear", "key %d still holds %d after Clear", k, v))
		}
	}
	if n := len(s.mapKeys()); n != 0 {
		s.add(vs, vfV("C15", "not-empty-after-clear", "%d entries in the map after Clear", n))
	}
	if rc := s.c.RemainingCost(); rc != s.c.MaxCost() {
		s.add(vs, vfV("C15", "capacity-not-reset", "RemainingCost()=%d != MaxCost()=%d after Clear", rc, s.c.MaxCost()))
	}
	if pk := s.policyKeys(); len(pk) != 0 {
		// "its capacity ... reset": the accounting still names keys (possibly at cost 0), so a later Set of one of them
		// is not treated as a fresh cache would treat it
		s.add(vs, vfV("C15", "accounting-not-reset", "the capacity accounting still names %d keys after Clear: %v", len(pk), vfKeys(pk)))
	}
	if m := s.c.Metrics; m != nil && s.cfg.Metrics {
		tot := m.Hits() + m.Misses() + m.KeysAdded() + m.KeysUpdated() + m.KeysEvicted() + m.CostAdded() + m.CostEvicted() + m.SetsDropped() + m.SetsRejected()
		if tot != 0 {
			s.add(vs, vfV("C15", "metrics-not-reset", "metrics after Clear: %s", m.String()))
		}
	}
	// "as a fresh one would": a fresh cache has no access-frequency history. Checked only when nothing but Clear ran
	// (stand-in variant); partially filled Get stripes are not flushed by Clear and cannot have been counted yet.
	if !live {
		p := s.c.cachePolicy
		p.Lock()
		stale := int64(0)
		staleKey := uint64(0)
		for k := uint64(1); k <= uint64(s.cfg.Keys); k++ {
			kh, _ := s.c.keyToHash(k)
			if e := p.admit.Estimate(kh); e > stale {
				stale, staleKey = e, k
			}
		}
		incrs := p.admit.incrs
		p.Unlock()
		if stale > 0 || incrs != 0 {
			s.add(vs, vfV("C15", "frequency-state-not-reset", "after Clear key %d still has access-frequency estimate %d (recorded accesses since reset: %d); a fresh cache has none, so admission decisions differ", staleKey, stale, incrs))
		}
	}
	em := s.c.storedItems.(*shardedMap[uint64]).expiryMap
	em.RLock()
	nb := 0
	for _, b := range em.buckets {
		nb += len(b)
	}
	em.RUnlock()
	if nb != 0 {
		s.add(vs, vfV("C15", "expiry-index-not-reset", "%d keys left in the expiry index after Clear", nb))
	}
	s.checkWaiters(vs, "C15")
	// from here on a brand-new cache receives the same calls (only where nothing is ever evicted, so that both are deterministic)
	if !live && s.fitsAlways() && s.twinWanted {
		s.twin = vfNewTwin(s.cfg, s.maxCost)
	}
}

// finish drains, checks, closes the cache and checks the closed cache.
func (s *vfSM) finish() (vs []*vfViol) {
	if bd := s.blockedDel; bd != nil && s.twinWanted && s.nextTok%2 == 0 && s.align(&vs) {
		// C15 profile, half of the cases that end with a caller parked on the full write buffer: Close right now.
		// Clear (inside Close) drains the buffer; every slot it frees lets a parked sender's item in, and that item has
		// to be drained too - a Wait marker closed, a tombstone dropped - or its caller is stranded for good.
		s.dropTwin()
		liveBefore := s.liveToks()
		s.standIn()
		s.c.Close()
		s.closed = true
		s.halted = false
		s.fifo = nil
		s.blockedDel = nil
		s.st.closedWithParkedSender++
		_, v := s.absorb()
		s.add(&vs, v)
		synctest.Wait()
		select {
		case <-bd.done:
		default:
			what := "Del"
			if bd.isWait {
				what = "Wait"
			}
			s.add(&vs, vfV("C15", "caller-parked-on-full-buffer-stranded-by-close", "a %s call was blocked on the full write buffer when Close ran; Close has returned and the call still has not", what))
			// let the stranded goroutine go, so that the bubble can end and the verdict above is what gets reported
			func() {
				defer func() { _ = recover() }()
				for {
					select {
					case it, ok := <-s.c.setBuf:
						if !ok {
							return
						}
						if it != nil && it.wait != nil {
							close(it.wait)
						}
					default:
						return
					}
				}
			}()
			synctest.Wait()
		}
		for _, t := range liveBefore {
			if ti := s.toks[t]; ti.exits != 1 {
				s.add(&vs, &vfViol{Owner: "C04", Sig: "C04/not-released-by-close", Msg: fmt.Sprintf("value %d (key %d) has %d OnExit calls after Close", t, ti.key, ti.exits)})
			}
		}
		for _, w := range s.waiters {
			w.release = true
		}
		s.checkWaiters(&vs, "C15")
		return
	}
	for len(s.fifo) > 0 {
		s.stepOne(&vs)
	}
	s.checkAccounting(&vs)
	s.checkView(&vs)
	s.checkDrained(&vs)
	if len(vs) > 0 {
		return
	}
	s.dropTwin()
	liveBefore := s.liveToks()
	if n := s.nextWid; n%2 == 0 && len(s.fifo) < s.fifoCap() {
		s.park() // a goroutine parked in Wait() across Close
	}
	s.standIn()
	s.c.Close()
	s.closed = true
	s.halted = false
	_, v := s.absorb()
	s.add(&vs, v)
	for _, t := range liveBefore {
		if ti := s.toks[t]; ti.exits != 1 {
			s.add(&vs, &vfViol{Owner: "C04", Sig: "C04/not-released-by-close", Msg: fmt.Sprintf("value %d (key %d) has %d OnExit calls after Close", t, ti.key, ti.exits)})
			if ti.exits == 0 {
				// C15: "every value still held or buffered has been released through the callbacks" (Close is issued with
				// the applier halted, so these values are exactly the ones held or buffered when Close began)
				s.add(&vs, &vfViol{Owner: "C15", Sig: "C15/not-released-by-close", Msg: fmt.Sprintf("value %d (key %d) was held or buffered when Close was called and never reached OnExit", t, ti.key)})
			}
		}
	}
	for t, ti := range s.toks {
		if ti.state != tDropped && ti.exits != 1 {
			s.add(&vs, &vfViol{Owner: "C04", Sig: "C04/accepted-value-exit-count", Msg: fmt.Sprintf("value %d (key %d): Set returned true, OnExit called %d times by the time Close returned", t, ti.key, ti.exits)})
			break
		}
	}
	for _, w := range s.waiters {
		w.release = true
	}
	s.checkWaiters(&vs, "C15")
	// inert after Close
	var calls int32
	done := make(chan struct{})
	go func() {
		defer close(done)
		if s.c.Set(1, 999999, 1) {
			atomic.AddInt32(&calls, 100)
		}
		if s.c.SetWithTTL(1, 999998, 1, time.Second) {
			atomic.AddInt32(&calls, 100)
		}
		if _, ok := s.c.Get(1); ok {
			atomic.AddInt32(&calls, 1000)
		}
		s.c.Del(1)
		s.c.Wait()
		s.c.Clear()
		s.c.Close()
		s.c.IterValues(func(uint64) bool { atomic.AddInt32(&calls, 10000); return false })
		atomic.AddInt32(&calls, 1)
	}()
	synctest.Wait()
	select {
	case <-done:
	default:
		s.add(&vs, vfV("C15", "call-blocks-after-close", "a Set/Get/Del/Wait/Clear/Close call on the closed cache does not return"))
	}
	if n := atomic.LoadInt32(&calls); n != 1 {
		s.add(&vs, vfV("C15", "not-inert-after-close", "closed cache: Set returned true / Get hit / IterValues yielded (code %d)", n))
	}
	if l := s.takeLog(); len(l) > 0 {
		nz := 0
		for _, e := range l {
			if e.tok != 0 {
				nz++
			}
		}
		if nz > 0 {
			s.add(&vs, vfV("C15", "callback-after-close", "%d callbacks with values fired by calls on the closed cache", nz))
		}
	}
	buf := make([]byte, 1<<20)
	buf = buf[:runtime.Stack(buf, true)]
	if n := strings.Count(string(buf), ").processItems"); n != 0 {
		s.c.cleanupTicker.Stop()
		s.add(&vs, vfV("C15", "goroutine-left-after-close", "%d processItems goroutines still exist after Close returned", n))
	}
	s.st.closeChecked = true
	return
}
