//go:build verif

package ristretto

// Long histories on one cache: the state machine and the concurrent engine run cases of tens to hundreds of calls; some
// state only goes wrong after tens of thousands (a table that is trimmed at 100 000 entries, bookkeeping that is
// compacted after thousands of removals, counters that drift by one per cycle). One sequential client, the real
// applier, no clock: 10^4..2*10^5 operations per case with cheap oracles at checkpoints (after Wait) and at Close.
//
//   C03  RemainingCost() == MaxCost - sum of accounted costs, and that sum <= MaxCost
//   C13  accounted keys == keys in the map
//   C17  KeysAdded-KeysEvicted == keys in the map; CostAdded-CostEvicted == MaxCost-RemainingCost()
//   C04  at Close every accepted value was passed to OnExit exactly once, every refused one never
//   C08  (no oracle: a panic in the applier kills the process, which the driver reports)
//
// Each check runs its own copy of the stage and reports only its own assertions.

import (
	"fmt"
	"sync/atomic"
	"testing"

	"pgregory.net/rapid"
)

type vfLongCase struct {
	Mode    string `json:"mode"` // churn | overfill | evict
	Keys    int    `json:"distinct_keys"`
	Batch   int    `json:"batch"`
	CostMax int    `json:"cost_max"`
	Gets    bool   `json:"gets"`
}

type vfLongStats struct {
	ops, admitted, evictions, rejections, checkpoints int
}

func vfRunLong(c *vfLongCase) (st vfLongStats, sig, msg string) {
	maxCost := int64(0)
	switch c.Mode {
	case "churn":
		maxCost = int64(c.Batch * c.CostMax * 2)
	case "overfill":
		maxCost = int64(c.Keys) * int64(c.CostMax+1) / 2 * 8 / 10
	default:
		maxCost = 100
	}
	n := c.Keys + 8
	exits := make([]atomic.Uint32, n+1)
	evicts := make([]atomic.Uint32, n+1)
	rejects := make([]atomic.Uint32, n+1)
	cache, err := NewCache(&Config[uint64, uint64]{NumCounters: 1 << 17, MaxCost: maxCost, BufferItems: 64, IgnoreInternalCost: true, Metrics: true,
		OnEvict:  func(it *Item[uint64]) { evicts[it.Value].Add(1) },
		OnReject: func(it *Item[uint64]) { rejects[it.Value].Add(1) },
		OnExit: func(v uint64) {
			if v != 0 {
				exits[v].Add(1)
			}
		},
	})
	if err != nil {
		panic(err)
	}
	closed := false
	defer func() {
		if !closed {
			cache.Close()
		}
	}()
	accepted := make([]bool, n+1)
	cost := func(tok int) int64 { return 1 + int64(tok%c.CostMax) }
	fail := func(s, f string, a ...any) (vfLongStats, string, string) { return st, s, fmt.Sprintf(f, a...) }
	checkpoint := func(where string) (string, string) {
		cache.Wait()
		st.checkpoints++
		p := cache.cachePolicy
		p.Lock()
		pk := make(map[uint64]int64, len(p.evict.keyCosts))
		var sum int64
		for k, v := range p.evict.keyCosts {
			pk[k] = v
			sum += v
		}
		p.Unlock()
		nmap := 0
		missing := uint64(0)
		nMissing := 0
		sm := cache.storedItems.(*shardedMap[uint64])
		for _, sh := range sm.shards {
			sh.RLock()
			for k := range sh.data {
				nmap++
				if _, ok := pk[k]; !ok {
					nMissing++
					missing = k
				}
			}
			sh.RUnlock()
		}
		rc := cache.RemainingCost()
		if rc != maxCost-sum {
			return "C03/remaining-cost-identity/long", fmt.Sprintf("%s after %d operations: RemainingCost()=%d, MaxCost %d - sum of accounted costs %d = %d", where, st.ops, rc, maxCost, sum, maxCost-sum)
		}
		if sum > maxCost {
			return "C03/over-capacity/long", fmt.Sprintf("%s after %d operations: accounted cost %d > MaxCost %d (no overwrites, MaxCost never lowered)", where, st.ops, sum, maxCost)
		}
		if nMissing > 0 {
			return "C13/stored-but-not-accounted/long", fmt.Sprintf("%s after %d operations: %d keys are held in the map but not charged (e.g. %d)", where, st.ops, nMissing, missing)
		}
		if nmap != len(pk) {
			return "C13/accounted-but-not-stored/long", fmt.Sprintf("%s after %d operations: %d keys charged, %d held in the map", where, st.ops, len(pk), nmap)
		}
		m := cache.Metrics
		if d := m.KeysAdded() - m.KeysEvicted(); d != uint64(nmap) {
			return "C17/keys-added-minus-evicted/long", fmt.Sprintf("%s after %d operations: KeysAdded %d - KeysEvicted %d != %d resident keys", where, st.ops, m.KeysAdded(), m.KeysEvicted(), nmap)
		}
		if d := m.CostAdded() - m.CostEvicted(); d != uint64(maxCost-rc) {
			return "C17/cost-added-minus-evicted/long", fmt.Sprintf("%s after %d operations: CostAdded %d - CostEvicted %d != MaxCost-RemainingCost() = %d", where, st.ops, m.CostAdded(), m.CostEvicted(), maxCost-rc)
		}
		return "", ""
	}
	tok := 0
	set := func() {
		tok++
		st.ops++
		accepted[tok] = cache.Set(uint64(tok), uint64(tok), cost(tok))
	}
	switch c.Mode {
	case "churn":
		for tok+c.Batch <= c.Keys {
			first := tok + 1
			for i := 0; i < c.Batch; i++ {
				set()
			}
			if s, m := checkpoint("after a batch of Sets"); s != "" {
				return fail(s, "%s", m)
			}
			for k := first; k <= tok; k++ {
				if c.Gets {
					cache.Get(uint64(k))
				}
				cache.Del(uint64(k))
				st.ops++
			}
			if st.checkpoints%8 == 1 || tok+c.Batch > c.Keys {
				if s, m := checkpoint("after deleting the batch"); s != "" {
					return fail(s, "%s", m)
				}
			}
		}
	default: // overfill, evict
		every := c.Batch
		for tok < c.Keys {
			set()
			if c.Gets && tok%3 == 0 {
				cache.Get(uint64(1 + tok/2))
			}
			if tok%every == 0 {
				cache.Wait() // keep the write buffer from filling up
				if c.Mode == "evict" || tok%(every*16) == 0 {
					if s, m := checkpoint("while filling"); s != "" {
						return fail(s, "%s", m)
					}
				}
			}
		}
		if s, m := checkpoint("at the end"); s != "" {
			return fail(s, "%s", m)
		}
	}
	cache.Close()
	closed = true
	for t := 1; t <= tok; t++ {
		e := exits[t].Load()
		st.evictions += int(evicts[t].Load())
		st.rejections += int(rejects[t].Load())
		switch {
		case accepted[t] && e == 0:
			return fail("C04/never-released/long", "value %d (of %d): Set returned true, OnExit never fired by the time Close returned (OnEvict %d, OnReject %d)", t, tok, evicts[t].Load(), rejects[t].Load())
		case accepted[t] && e > 1:
			return fail("C04/double-exit/long", "value %d (of %d): OnExit fired %d times", t, tok, e)
		case !accepted[t] && e+evicts[t].Load()+rejects[t].Load() > 0:
			return fail("C04/callback-for-refused-set/long", "value %d: Set returned false but callbacks fired", t)
		}
		if accepted[t] {
			st.admitted++
		}
	}
	return st, "", ""
}

func vfLongTest(t *testing.T, owner string) {
	ev := vfNewEvidence(t, owner)
	rapid.Check(t, func(rt *rapid.T) {
		// every case runs the three modes, each on a cache of its own
		for _, mode := range []string{"churn", "overfill", "evict"} {
			c := &vfLongCase{Mode: mode, Gets: rapid.Bool().Draw(rt, "gets")}
			switch c.Mode {
			case "churn":
				c.Batch = rapid.SampledFrom([]int{8, 32, 256}).Draw(rt, "batch")
				c.Keys = rapid.SampledFrom([]int{20000, 110000, 140000, 140000}).Draw(rt, "keys")
				c.CostMax = rapid.SampledFrom([]int{1, 5}).Draw(rt, "costMax")
			case "overfill":
				c.Batch = rapid.SampledFrom([]int{1024, 4096}).Draw(rt, "batch")
				c.Keys = rapid.SampledFrom([]int{30000, 120000, 170000, 170000}).Draw(rt, "keys")
				c.CostMax = rapid.SampledFrom([]int{1, 3}).Draw(rt, "costMax")
			default:
				c.Batch = rapid.SampledFrom([]int{16, 64, 512}).Draw(rt, "batch")
				c.Keys = rapid.SampledFrom([]int{6000, 12000, 40000}).Draw(rt, "keys")
				c.CostMax = rapid.SampledFrom([]int{1, 5, 9}).Draw(rt, "costMax")
			}
			st, sig, msg := vfRunLong(c)
			if sig != "" && sig[:3] == owner {
				rt.Fatalf("%s", vfFail(owner, "long", sig, c, "%s", msg))
			}
			if sig != "" {
				ev.Excluded("diverged_other=" + sig)
				continue
			}
			ev.Class("long:operations", st.ops)
			ev.Class("long:mode-"+c.Mode, 1)
			// non-trivial: more than 100 000 values went through the cache, or more than 4096 left it by eviction
			nt := st.admitted > 100000 || st.evictions > 4096
			ev.Case(nt, vfHash(c.Mode, c.Keys, c.Batch, c.CostMax, c.Gets), "long-case")
			ev.Sample(nt, func() any {
				return map[string]any{"long": c, "operations": st.ops, "accepted": st.admitted, "evictions": st.evictions, "rejections": st.rejections, "checkpoints": st.checkpoints}
			})
		}
	})
}

func TestVf_C03_Long(t *testing.T) { vfLongTest(t, "C03") }
func TestVf_C04_Long(t *testing.T) { vfLongTest(t, "C04") }
func TestVf_C08_Long(t *testing.T) { vfLongTest(t, "C08") }
func TestVf_C13_Long(t *testing.T) { vfLongTest(t, "C13") }
func TestVf_C17_Long(t *testing.T) { vfLongTest(t, "C17") }

func TestVfReplay_Long(t *testing.T) {
	var c vfLongCase
	if !vfLoadReplay(t, &c) {
		return
	}
	owner := vfReplayOwner()
	if _, sig, msg := vfRunLong(&c); sig != "" && sig[:3] == owner {
		t.Fatalf("%s", vfFail(owner, "long", sig, &c, "%s", msg))
	}
}
