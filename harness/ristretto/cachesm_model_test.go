//go:build verif

package ristretto

// E1 "cachesm", part 1: harness mechanics (owned applier, callback log) and the
// reference model. See /verif/DESIGN.md section 3 (rules R1-R9).

import (
	"fmt"
	"sort"
	"strings"
	"sync"
	"testing/synctest"
	"time"
)

type vfOp struct {
	Kind string `json:"kind"`
	Key  uint64 `json:"key,omitempty"`
	Cost int64  `json:"cost,omitempty"`
	TTL  int64  `json:"ttl_ns,omitempty"`
	N    int    `json:"n,omitempty"`
	D    int64  `json:"d_ns,omitempty"`
	J    int    `json:"j,omitempty"`
	Prog []vfOp `json:"prog,omitempty"`
	Tok  uint64 `json:"tok,omitempty"` // filled in by the interpreter (informational)
	Res  string `json:"res,omitempty"` // observed result (informational)
}

type vfCfg struct {
	MaxCost      int64 `json:"max_cost"`
	NumCounters  int64 `json:"num_counters"`
	BufferItems  int64 `json:"buffer_items"`
	Metrics      bool  `json:"metrics"`
	IgnoreIntern bool  `json:"ignore_internal_cost"`
	CostFn       bool  `json:"cost_fn"`
	ShouldUpdate bool  `json:"should_update_fn"`
	TickerSecs   int64 `json:"ttl_ticker_secs"`
	SetBufSize   int   `json:"set_buf_size"`
	BucketSecs   int64 `json:"bucket_secs"`
	Keys         int   `json:"keys"`
	ConflictHash bool  `json:"conflict_hash"` // Config.KeyToHash with distinct primaries and non-zero conflict hashes
}

type vfCase struct {
	Profile string `json:"profile"`
	Cfg     vfCfg  `json:"config"`
	Ops     []vfOp `json:"ops"`
}

// a violation found by the engine; Owner is the property the broken assertion belongs to
type vfViol struct {
	Also  string // a second property whose sentence also justifies the assertion
	Owner string
	Sig   string
	Msg   string
}

func vfV(owner, sig, format string, args ...any) *vfViol {
	return &vfViol{Owner: owner, Sig: owner + "/" + sig, Msg: fmt.Sprintf(format, args...)}
}

func vfCostFn(v uint64) int64              { return 1 + int64(v%5) }
func vfShouldUpdate(cur, prev uint64) bool { return cur%4 != 0 }

const (
	vfCBEvict = iota
	vfCBReject
	vfCBExit
	vfCBProg // marker: the armed mid-sweep program ran here
)

type vfCB struct {
	kind int
	key  uint64
	tok  uint64
	cost int64
	exp  time.Time
}

const (
	pNew = iota
	pUpd
	pDel
	pWait
)

type vfPend struct {
	kind int
	key  uint64
	tok  uint64
	cost int64
	exp  time.Time
	wid  int
}

type vfEnt struct {
	tok uint64
	exp time.Time
}

const (
	tPending = iota
	tResident
	tGone    // no longer retrievable (exit may or may not have been seen yet)
	tDropped // Set returned false
)

type vfTokInfo struct {
	key                    uint64
	state                  int
	evicts, rejects, exits int
	issued, lag            int  // client calls at issue time; client calls that passed before the insert was applied
	superseded             bool // this value was read, and later a value written after it was read under the same key
}

type vfBlockedDel struct {
	key    uint64
	done   chan struct{}
	isWait bool // a Wait() call whose marker could not be enqueued yet
	wid    int
}

type vfWaiter struct {
	done    chan struct{}
	release bool // the model says its marker has been consumed
}

type vfSM struct {
	cfg    vfCfg
	c      *Cache[uint64, uint64]
	halted bool
	closed bool

	mu          sync.Mutex
	log         []vfCB
	armedProg   []vfOp // program to run inside the J-th OnEvict of the next sweep
	armedJ      int
	sweepEvictN int
	progRan     bool
	progOps     []vfOp

	// model
	fifo       []vfPend
	resident   map[uint64]vfEnt
	acct       map[uint64]int64
	used       int64
	maxCost    int64
	toks       map[uint64]*vfTokInfo
	nextTok    uint64
	preMap     map[uint64]uint64 // the map's keys right before an insert is applied
	bigCost    bool              // a Set with an explicit cost above vfRoomyMaxCost was issued
	realigned  bool              // alignFifo dropped reference entries in this step
	bufBefore  int               // len(setBuf) right before a direct client Set (-1: unknown, e.g. a Set issued from inside a callback)
	nowhere    map[uint64]uint64 // key -> value whose Set returned true although it found no place in the write buffer (new key, no ttl)
	lastRead   map[uint64]uint64 // key -> value returned by the most recent successful read (C02, second sentence)
	exempt     bool              // an applied update/duplicate raised an accounted cost (C03 carve-out)
	waiters    map[int]*vfWaiter
	nextWid    int
	blockedDel *vfBlockedDel    // a Del call blocked on the full write buffer (its goroutine is parked)
	twin       *vfTwin          // a brand-new cache mirrored after a Clear (C15)
	twinWanted bool             // only the C15 profile pays for the twin
	preAcct    map[uint64]int64 // the policy\'s own key costs right before the item being applied
	delRemoved []uint64         // values removed from the map by a Del or its tombstone since the last drained check
	replaying  bool             // a read of the mid-sweep program is being replayed on the model
	calls      int              // client calls so far
	t0         time.Time        // creation time of the cache (first tick at t0+period)
	lastTick   time.Time        // when a pending tick was last consumed or discarded
	swept      map[uint64]bool  // keys whose entry was removed by expiry processing and not written since
	everTTL    map[uint64]bool  // keys that were ever written with a TTL
	tainted    map[uint64]bool  // keys with a duplicate buffered insert (outside C06's premise)
	deleted    map[uint64]bool  // C05: Del(k) returned and writes drained since; no Set issued yet

	// metric model (since creation / last Clear)
	mGets, mHits, mMisses    uint64
	mGetsEver                uint64
	mDropped                 uint64
	mKeysAdded, mKeysEvicted uint64
	mCostAdded, mCostEvicted uint64

	// statistics for evidence
	st vfSMStats
}

type vfSMStats struct {
	evictions, rejections, drops, sweepsWithEvict, dels, clears int
	closedWithParkedSender                                      int
	realigned                                                   int // steps at which the reference FIFO had to be re-aligned with the cache's write buffer
	clearBufferedNew, clearBufferedOther                        bool
	admissionsAfterEvict                                        int
	costChangeBefore                                            bool
	lateHit                                                     int // Get hit on a value whose insert was buffered across >=1 other client call
	waitWith2                                                   int
	nearExpiryObs, ttlReplaced                                  int
	delWithBufferedInsert, delOnFullBuffer, waitOnFullBuffer    int
	drainedNonEmpty                                             int
	sweepMixed                                                  int // sweep removed >=1 while another entry of a swept bucket was re-written / late
	costLowering, costRaising                                   int
	decisions                                                   []vfDecisionStats
	midSweepRewrites                                            int
	lateApplied                                                 int
	postClearOps                                                int
	closeChecked                                                bool
}

func vfNewSM(cfg vfCfg) (*vfSM, func()) {
	oldBuf, oldBucket := setBufSize, bucketDurationSecs
	setBufSize, bucketDurationSecs = cfg.SetBufSize, cfg.BucketSecs
	restore := func() { setBufSize, bucketDurationSecs = oldBuf, oldBucket }
	s := &vfSM{cfg: cfg, resident: map[uint64]vfEnt{}, acct: map[uint64]int64{}, maxCost: cfg.MaxCost,
		toks: map[uint64]*vfTokInfo{}, nextTok: 1, lastRead: map[uint64]uint64{}, nowhere: map[uint64]uint64{}, bufBefore: -1, waiters: map[int]*vfWaiter{}, everTTL: map[uint64]bool{}, swept: map[uint64]bool{}, tainted: map[uint64]bool{}, deleted: map[uint64]bool{}}
	conf := vfBuildConf(cfg, s)
	s.t0 = time.Now()
	s.lastTick = s.t0
	c, err := NewCache(conf)
	if err != nil {
		restore()
		panic(err)
	}
	s.c = c
	s.halt()
	return s, restore
}

// vfBuildConf: the cache configuration of a case; with s == nil no callbacks are installed (twin cache).
func vfBuildConf(cfg vfCfg, s *vfSM) *Config[uint64, uint64] {
	conf := &Config[uint64, uint64]{
		NumCounters: cfg.NumCounters, MaxCost: cfg.MaxCost, BufferItems: cfg.BufferItems, Metrics: cfg.Metrics,
		IgnoreInternalCost: cfg.IgnoreIntern, TtlTickerDurationInSec: cfg.TickerSecs,
	}
	if s != nil {
		conf.OnEvict = func(it *Item[uint64]) {
			s.cb(vfCB{kind: vfCBEvict, key: it.Key, tok: it.Value, cost: it.Cost, exp: it.Expiration})
		}
		conf.OnReject = func(it *Item[uint64]) { s.cb(vfCB{kind: vfCBReject, key: it.Key, tok: it.Value, cost: it.Cost}) }
		conf.OnExit = func(v uint64) { s.cb(vfCB{kind: vfCBExit, tok: v}) }
	}
	if cfg.CostFn {
		conf.Cost = vfCostFn
	}
	if cfg.ShouldUpdate {
		conf.ShouldUpdate = vfShouldUpdate
	}
	if cfg.ConflictHash {
		// as for string keys: every key has its own primary hash and a non-zero conflict hash
		conf.KeyToHash = func(k uint64) (uint64, uint64) { return k, k*0x9e3779b97f4a7c15 | 1 }
	}
	return conf
}

// ---- twin: a brand-new cache that receives the same calls as the cleared one (C15 "as a fresh one would") ----

type vfTwin struct {
	c *Cache[uint64, uint64]
}

func vfNewTwin(cfg vfCfg, maxCost int64) *vfTwin {
	c, err := NewCache(vfBuildConf(cfg, nil))
	if err != nil {
		panic(err)
	}
	c.UpdateMaxCost(maxCost)
	c.stop <- struct{}{}
	<-c.done
	return &vfTwin{c: c}
}

func (t *vfTwin) stepOne() {
	var items []*Item[uint64]
	for {
		select {
		case it := <-t.c.setBuf:
			items = append(items, it)
			continue
		default:
		}
		break
	}
	select {
	case <-t.c.cleanupTicker.C:
	default:
	}
	if len(items) == 0 {
		return
	}
	go t.c.processItems()
	t.c.setBuf <- items[0]
	marker := &Item[uint64]{wait: make(chan struct{})}
	t.c.setBuf <- marker
	<-marker.wait
	t.c.stop <- struct{}{}
	<-t.c.done
	for _, it := range items[1:] {
		t.c.setBuf <- it
	}
}

func (t *vfTwin) close() {
	defer func() { _ = recover() }()
	go t.c.processItems()
	t.c.Close()
}

func (s *vfSM) dropTwin() {
	if s.twin != nil {
		s.twin.close()
		s.twin = nil
	}
}

// compareTwin: the cleared cache and the fresh one must answer every key alike.
func (s *vfSM) compareTwin(vs *[]*vfViol, after string) {
	if s.twin == nil {
		return
	}
	for k := uint64(1); k <= uint64(s.cfg.Keys); k++ {
		kh, _ := s.c.keyToHash(k)
		a, aok := s.c.storedItems.Get(kh, 0)
		b, bok := s.twin.c.storedItems.Get(kh, 0)
		if a != b || aok != bok {
			s.add(vs, vfV("C15", "cleared-cache-differs-from-a-fresh-one", "after %s: key %d reads (%d,%v) from the cache that was cleared and (%d,%v) from a new cache that received the same calls since the Clear", after, k, a, aok, b, bok))
			s.dropTwin()
			return
		}
	}
}

func (s *vfSM) cb(e vfCB) {
	s.mu.Lock()
	s.log = append(s.log, e)
	var prog []vfOp
	if e.kind == vfCBEvict && !e.exp.IsZero() && s.armedProg != nil {
		s.sweepEvictN++
		if s.sweepEvictN == s.armedJ {
			prog = s.armedProg
			s.armedProg = nil
		}
	}
	s.mu.Unlock()
	if prog != nil {
		// runs in the applier goroutine, between the sweep's bucket grab and its remaining per-key checks
		s.mu.Lock()
		s.log = append(s.log, vfCB{kind: vfCBProg})
		s.mu.Unlock()
		s.progRan = true
		for i := range prog {
			s.rawClientOp(&prog[i])
		}
		s.progOps = prog
	}
}

// rawClientOp performs a client call without touching the model (used by the mid-sweep program;
// the model replays it when it reaches the marker in the callback log).
func (s *vfSM) rawClientOp(op *vfOp) {
	switch op.Kind {
	case "set":
		ok := s.c.SetWithTTL(op.Key, op.Tok, op.Cost, time.Duration(op.TTL))
		op.Res = fmt.Sprint(ok)
		if v, found := s.c.storedItems.Get(op.Key, 0); found && v == op.Tok {
			op.Res += "+upd"
		}
	case "del":
		s.c.Del(op.Key)
	case "get":
		v, ok := s.c.Get(op.Key)
		op.Res = fmt.Sprintf("%d,%v", v, ok)
	case "iter":
		var vals []string
		s.c.IterValues(func(v uint64) bool {
			vals = append(vals, fmt.Sprint(v))
			return false
		})
		op.Res = strings.Join(vals, ",")
	}
}

func (s *vfSM) takeLog() []vfCB {
	s.mu.Lock()
	l := s.log
	s.log = nil
	s.mu.Unlock()
	return l
}

func (s *vfSM) halt() {
	s.c.stop <- struct{}{}
	<-s.c.done
	s.halted = true
}

func (s *vfSM) resume() {
	go s.c.processItems()
	s.halted = false
}

func (s *vfSM) drainTick() bool {
	s.lastTick = time.Now()
	select {
	case <-s.c.cleanupTicker.C:
		return true
	default:
		return false
	}
}

// tickPending: timer channels report len 0 since Go 1.23, so the pending tick is computed:
// the ticker fires at t0+n*period and holds at most one undelivered tick.
func (s *vfSM) tickPending() bool {
	period := time.Duration(s.cfg.TickerSecs) * time.Second / 2
	return int64(time.Since(s.t0)/period) > int64(s.lastTick.Sub(s.t0)/period)
}

func (s *vfSM) drainBuf() []*Item[uint64] {
	var items []*Item[uint64]
	for {
		select {
		case it := <-s.c.setBuf:
			items = append(items, it)
		default:
			return items
		}
	}
}

// stepOneReal lets the applier consume exactly the next buffered item.
func (s *vfSM) stepOneReal() {
	items := s.drainBuf()
	if s.blockedDel != nil {
		// a Del is blocked on the full buffer: its tombstone enters at the tail as soon as a slot is free
		synctest.Wait()
		items = append(items, s.drainBuf()...)
	}
	s.drainTick()
	if len(items) == 0 {
		return
	}
	s.resume()
	s.c.setBuf <- items[0]
	marker := &Item[uint64]{wait: make(chan struct{})}
	s.c.setBuf <- marker
	<-marker.wait
	s.halt()
	for _, it := range items[1:] {
		s.c.setBuf <- it
	}
}

// sweepReal lets the applier consume a pending tick (if any) with an empty buffer.
func (s *vfSM) sweepReal() {
	items := s.drainBuf()
	s.resume()
	synctest.Wait()
	s.lastTick = time.Now()
	s.halt()
	// items buffered meanwhile (by an armed program) stay in front: they were consumed by the
	// same applier run, so the channel is empty again here
	for _, it := range items {
		s.c.setBuf <- it
	}
}

// shutdown is deferred by every property: it must leave no goroutine parked in the bubble.
func (s *vfSM) shutdown() {
	defer func() { _ = recover() }()
	s.dropTwin()
	if s.closed {
		return
	}
	if s.halted {
		s.resume()
	}
	s.c.Close()
	s.closed = true
}

func (s *vfSM) effCost(p *vfPend) int64 {
	c := p.cost
	if c == 0 && s.cfg.CostFn && p.kind != pDel {
		c = vfCostFn(p.tok)
	}
	if !s.cfg.IgnoreIntern {
		c += itemSize
	}
	return c
}

func (s *vfSM) served(e vfEnt, now time.Time) (yes, boundary bool) {
	if e.exp.IsZero() {
		return true, false
	}
	if now.Equal(e.exp) {
		return true, true
	}
	return now.Before(e.exp), false
}

func (s *vfSM) newTok(key uint64) uint64 {
	t := s.nextTok
	s.nextTok++
	s.toks[t] = &vfTokInfo{key: key}
	return t
}

func (s *vfSM) setAcct(key uint64, cost int64) {
	if old, ok := s.acct[key]; ok {
		s.used -= old
	}
	s.acct[key] = cost
	s.used += cost
}

func (s *vfSM) delAcct(key uint64) (int64, bool) {
	old, ok := s.acct[key]
	if ok {
		s.used -= old
		delete(s.acct, key)
	}
	return old, ok
}

// absorb processes the callback log generically (C04 bookkeeping) and returns the events. Every event is
// counted even after a violation was seen, so that later assertions do not read half-updated counters.
func (s *vfSM) absorb() ([]vfCB, *vfViol) {
	l := s.takeLog()
	var first *vfViol
	note := func(v *vfViol) {
		if first == nil {
			first = v
		}
	}
	for i, e := range l {
		if e.kind == vfCBProg || e.tok == 0 {
			continue // zero value = "no value" (Del of an absent key, stale victim)
		}
		ti := s.toks[e.tok]
		if ti == nil {
			note(vfV("C04", "callback-for-unknown-value", "callback %d for value %d which no Set supplied", e.kind, e.tok))
			continue
		}
		if ti.state == tDropped {
			note(vfV("C04", "callback-for-refused-set", "value %d: its Set returned false but callback kind %d fired", e.tok, e.kind))
		}
		switch e.kind {
		case vfCBExit:
			ti.exits++
			if ti.exits > 1 {
				note(vfV("C04", "double-exit", "value %d (key %d) passed to OnExit %d times", e.tok, ti.key, ti.exits))
			}
		case vfCBEvict, vfCBReject:
			if e.kind == vfCBEvict {
				ti.evicts++
			} else {
				ti.rejects++
			}
			if ti.evicts > 1 || ti.rejects > 1 {
				note(vfV("C04", "double-evict-or-reject", "value %d: OnEvict x%d OnReject x%d", e.tok, ti.evicts, ti.rejects))
			}
			j := i + 1
			if j < len(l) && l[j].kind == vfCBProg {
				// the armed client program ran inside this OnEvict: its own callbacks come first
				for j < len(l) && !(l[j].kind == vfCBExit && l[j].tok == e.tok) {
					j++
				}
			}
			if j >= len(l) || l[j].kind != vfCBExit || l[j].tok != e.tok {
				note(vfV("C04", "evict-reject-not-followed-by-exit", "OnEvict/OnReject of value %d is not followed by its OnExit", e.tok))
			}
		}
	}
	return l, first
}

// gone marks a token as no longer retrievable.
func (s *vfSM) gone(tok uint64) {
	if ti := s.toks[tok]; ti != nil && ti.state != tDropped {
		ti.state = tGone
	}
}

func vfSortedU64(m map[uint64]bool) []uint64 {
	ks := make([]uint64, 0, len(m))
	for k := range m {
		ks = append(ks, k)
	}
	sort.Slice(ks, func(i, j int) bool { return ks[i] < ks[j] })
	return ks
}
