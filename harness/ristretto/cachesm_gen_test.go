//go:build verif

package ristretto

// E1 "cachesm", part 3: generators, profiles (one per property), runner, tests.

import (
	"encoding/json"
	"fmt"
	"os"
	"sort"
	"strings"
	"testing"
	"testing/synctest"
	"time"

	"pgregory.net/rapid"
)

type vfProfile struct {
	id                string
	roomy             bool
	w                 map[string]int // op weights
	ttlPct            int            // share of Sets with a TTL
	metrics, pressure bool
}

var vfProfiles = map[string]*vfProfile{
	"C02": {id: "C02", pressure: true, ttlPct: 20, w: map[string]int{"set": 40, "del": 10, "get": 25, "iter": 3, "step": 18, "wait": 3, "advance": 4, "sweep": 4, "clear": 1, "clearlive": 1}},
	"C03": {id: "C03", pressure: true, ttlPct: 10, w: map[string]int{"set": 45, "del": 8, "get": 18, "step": 22, "wait": 3, "umc": 3, "advance": 2, "sweep": 2, "clear": 1}},
	"C04": {id: "C04", pressure: true, ttlPct: 20, w: map[string]int{"set": 45, "del": 8, "get": 8, "step": 18, "wait": 2, "park": 2, "advance": 4, "sweep": 4, "clear": 4, "clearlive": 3}},
	"C05": {id: "C05", pressure: false, ttlPct: 25, w: map[string]int{"set": 35, "del": 16, "get": 16, "getttl": 2, "step": 20, "wait": 8, "advance": 4, "sweep": 3}},
	"C06": {id: "C06", roomy: true, ttlPct: 25, w: map[string]int{"set": 35, "del": 8, "get": 22, "getttl": 5, "iter": 4, "step": 16, "wait": 6, "park": 2, "advance": 6}},
	"C07": {id: "C07", roomy: true, ttlPct: 85, w: map[string]int{"set": 30, "del": 5, "get": 22, "getttl": 10, "iter": 5, "step": 22, "wait": 2, "advance": 22, "sweep": 4, "sweepwith": 4}},
	"C09": {id: "C09", pressure: true, ttlPct: 0, w: map[string]int{"set": 40, "get": 35, "del": 4, "step": 25, "wait": 2}},
	"C13": {id: "C13", pressure: true, ttlPct: 35, w: map[string]int{"set": 38, "del": 10, "get": 8, "iter": 5, "step": 18, "wait": 5, "advance": 8, "sweep": 7, "quiesce": 1, "clear": 1}},
	"C14": {id: "C14", roomy: true, ttlPct: 85, w: map[string]int{"set": 30, "del": 5, "get": 6, "step": 14, "wait": 3, "advance": 14, "sweep": 10, "sweepwith": 10, "scenario": 6, "quiesce": 2}},
	"C15": {id: "C15", pressure: false, ttlPct: 25, w: map[string]int{"set": 40, "del": 8, "get": 10, "step": 12, "park": 5, "advance": 4, "sweep": 2, "clear": 8, "clearlive": 4, "wait": 2}},
	"C17": {id: "C17", pressure: true, metrics: true, ttlPct: 20, w: map[string]int{"set": 42, "del": 7, "get": 22, "step": 18, "wait": 5, "advance": 3, "sweep": 3, "clear": 1}},
}

func vfGenCfg(t *rapid.T, p *vfProfile) vfCfg {
	c := vfCfg{}
	c.Keys = rapid.SampledFrom([]int{8, 8, 8, 32}).Draw(t, "keys")
	c.IgnoreIntern = rapid.Bool().Draw(t, "ignoreInternal")
	fit := int64(rapid.IntRange(2, 5).Draw(t, "fit"))
	if c.IgnoreIntern {
		c.MaxCost = fit*3 + int64(rapid.IntRange(0, 2).Draw(t, "maxextra"))
	} else {
		c.MaxCost = fit*(itemSize+3) + int64(rapid.IntRange(0, 2).Draw(t, "maxextra"))
	}
	if p.roomy || (!p.pressure && rapid.Bool().Draw(t, "roomy")) {
		c.MaxCost = 1 << 40
		if p.roomy && rapid.Bool().Draw(t, "snug") {
			// everything fits, but only just: the sum of the largest cost every key can ever have.
			// Few keys and no internal cost, so that a handful of mis-accounted units already matter.
			c.Keys = rapid.IntRange(2, 4).Draw(t, "snugkeys")
			c.IgnoreIntern = true
			c.MaxCost = int64(c.Keys)*vfRoomyMaxCost + int64(rapid.IntRange(0, 1).Draw(t, "snugslack"))
		}
	}
	c.NumCounters = int64(rapid.SampledFrom([]int{2, 8, 64, 100, 1024}).Draw(t, "numCounters"))
	c.BufferItems = int64(rapid.SampledFrom([]int{1, 1, 2, 4, 64}).Draw(t, "bufferItems"))
	c.Metrics = p.metrics || rapid.Bool().Draw(t, "metrics")
	c.CostFn = rapid.IntRange(0, 3).Draw(t, "costFn") == 0
	c.ShouldUpdate = rapid.IntRange(0, 5).Draw(t, "shouldUpdate") == 0
	c.TickerSecs = int64(rapid.IntRange(1, 5).Draw(t, "ticker"))
	c.SetBufSize = rapid.SampledFrom([]int{1, 2, 3, 8, 8, 64, 64}).Draw(t, "setBufSize")
	c.BucketSecs = int64(rapid.SampledFrom([]int{1, 1, 5}).Draw(t, "bucket"))
	c.ConflictHash = rapid.IntRange(0, 2).Draw(t, "conflicthash") == 0
	return c
}

// vfRoomyMaxCost is the largest explicit cost the roomy profiles generate (Config.Cost yields at most 5).
const vfRoomyMaxCost = 9

type vfGen struct {
	p     *vfProfile
	queue []vfOp
	kinds []string
	total int
}

func newVfGen(p *vfProfile) *vfGen {
	g := &vfGen{p: p}
	for k := range p.w {
		g.kinds = append(g.kinds, k)
	}
	sort.Strings(g.kinds)
	for _, k := range g.kinds {
		g.total += p.w[k]
	}
	return g
}

func (g *vfGen) residentKeys(s *vfSM) []uint64 {
	ks := make([]uint64, 0, len(s.resident))
	for k := range s.resident {
		ks = append(ks, k)
	}
	sort.Slice(ks, func(i, j int) bool { return ks[i] < ks[j] })
	return ks
}

// key: biased towards resident keys (overwrites, hits) and, without capacity pressure, a few focus keys
func (g *vfGen) key(t *rapid.T, s *vfSM) uint64 {
	switch rapid.IntRange(0, 5).Draw(t, "keymode") {
	case 0, 1:
		if ks := g.residentKeys(s); len(ks) > 0 {
			return ks[rapid.IntRange(0, len(ks)-1).Draw(t, "reskey")]
		}
	case 2, 3:
		if !g.p.pressure {
			hi := 3
			if s.cfg.Keys < hi {
				hi = s.cfg.Keys
			}
			return uint64(rapid.IntRange(1, hi).Draw(t, "key"))
		}
	}
	return uint64(rapid.IntRange(1, s.cfg.Keys).Draw(t, "key"))
}

func (g *vfGen) cost(t *rapid.T, s *vfSM) int64 {
	if g.p.roomy || (g.p.id == "C15" && s.fitsAlways()) {
		// C06's premise: the whole key set fits; nothing may ever need room
		if rapid.IntRange(0, 4).Draw(t, "zerocost") == 0 {
			return 0
		}
		return int64(rapid.IntRange(1, vfRoomyMaxCost).Draw(t, "cost"))
	}
	switch rapid.IntRange(0, 11).Draw(t, "costmode") {
	case 0:
		return 0
	case 1:
		return s.maxCost // plus the internal cost: larger than the cache unless ignored
	case 2:
		return s.maxCost + 1
	case 3:
		if !s.cfg.IgnoreIntern && s.maxCost > itemSize {
			return s.maxCost - itemSize // exactly MaxCost
		}
		return s.maxCost
	case 4, 5, 6:
		return int64(rapid.IntRange(1, 9).Draw(t, "cost"))
	default:
		return int64(rapid.IntRange(1, 3).Draw(t, "cost"))
	}
}

func (g *vfGen) ttl(t *rapid.T, s *vfSM) int64 {
	if rapid.IntRange(0, 99).Draw(t, "hasttl") >= g.p.ttlPct {
		return 0
	}
	switch rapid.IntRange(0, 11).Draw(t, "ttlmode") {
	case 0:
		return -int64(rapid.IntRange(1, 1000).Draw(t, "negttl"))
	case 1:
		return 1
	case 2:
		return int64(time.Millisecond)
	case 3, 4:
		return int64(time.Second)
	case 5:
		return int64(rapid.IntRange(1, 30).Draw(t, "ttlsec")) * int64(time.Second)
	case 6:
		return int64(rapid.Int64Range(1, int64(30*time.Second)).Draw(t, "ttlns"))
	case 7:
		return int64(time.Duration(s.cfg.BucketSecs) * time.Second)
	case 8:
		// "for every ttl value": very long TTLs, up to the largest Duration
		return rapid.SampledFrom([]int64{int64(time.Hour), 24 * 365 * int64(time.Hour), 250 * 365 * 24 * int64(time.Hour), 1<<63 - 1, 1<<63 - 1 - int64(time.Second)}).Draw(t, "longttl")
	default:
		return int64(rapid.IntRange(1, 3000).Draw(t, "ttlms")) * int64(time.Millisecond)
	}
}

func (g *vfGen) expiring(s *vfSM) []uint64 {
	var ks []uint64
	for k, e := range s.resident {
		if !e.exp.IsZero() {
			ks = append(ks, k)
		}
	}
	sort.Slice(ks, func(i, j int) bool { return ks[i] < ks[j] })
	return ks
}

func (g *vfGen) next(t *rapid.T, s *vfSM) vfOp {
	if len(g.queue) > 0 {
		op := g.queue[0]
		g.queue = g.queue[1:]
		return op
	}
	w := rapid.IntRange(0, g.total-1).Draw(t, "op")
	kind := ""
	for _, k := range g.kinds {
		if w < g.p.w[k] {
			kind = k
			break
		}
		w -= g.p.w[k]
	}
	period := time.Duration(s.cfg.TickerSecs) * time.Second / 2
	bucket := time.Duration(s.cfg.BucketSecs) * time.Second
	switch kind {
	case "set":
		return vfOp{Kind: "set", Key: g.key(t, s), Cost: g.cost(t, s), TTL: g.ttl(t, s)}
	case "del", "get", "getttl":
		op := vfOp{Kind: kind, Key: g.key(t, s)}
		if kind == "get" && rapid.IntRange(0, 3).Draw(t, "burst") == 0 {
			// a burst of reads shapes the access frequencies
			n := rapid.IntRange(2, 12).Draw(t, "burstlen")
			for i := 0; i < n; i++ {
				g.queue = append(g.queue, op)
			}
		}
		return op
	case "iter":
		return vfOp{Kind: "iter", N: rapid.IntRange(0, 3).Draw(t, "stopafter")}
	case "step":
		n := rapid.IntRange(1, 3).Draw(t, "n")
		if rapid.IntRange(0, 2).Draw(t, "all") == 0 {
			n = 1 << 20
		}
		return vfOp{Kind: "step", N: n}
	case "advance":
		ks := g.expiring(s)
		if len(ks) > 0 && rapid.IntRange(0, 1).Draw(t, "toexp") == 0 {
			k := ks[rapid.IntRange(0, len(ks)-1).Draw(t, "expkey")]
			d := s.resident[k].exp.Sub(time.Now()) + time.Duration(rapid.IntRange(-1, 1).Draw(t, "expdelta"))
			if d > 0 && d < 100*time.Hour { // (sleeping for centuries on the fake clock crashes the Go runtime's timer code)
				// observe right there
				g.queue = append(g.queue, vfOp{Kind: rapid.SampledFrom([]string{"get", "get", "getttl", "iter"}).Draw(t, "obs"), Key: k})
				return vfOp{Kind: "advance", D: int64(d)}
			}
		}
		d := rapid.SampledFrom([]time.Duration{1, time.Millisecond, 999 * time.Millisecond, time.Second, period, period + 1, bucket, 2 * bucket, 30 * time.Second}).Draw(t, "d")
		if rapid.IntRange(0, 2).Draw(t, "thensweep") == 0 {
			g.queue = append(g.queue, vfOp{Kind: "sweep"})
		}
		return vfOp{Kind: "advance", D: int64(d)}
	case "sweepwith":
		return g.sweepWith(t, s)
	case "scenario":
		return g.scenario(t, s)
	case "umc":
		return vfOp{Kind: "umc", Cost: int64(rapid.IntRange(1, 70).Draw(t, "raise"))}
	default:
		return vfOp{Kind: kind}
	}
}

// sweepWith: drain, make a tick pending, then sweep with a client program armed inside the
// first or second eviction callback of that sweep.
func (g *vfGen) sweepWith(t *rapid.T, s *vfSM) vfOp {
	ks := g.expiring(s)
	var prog []vfOp
	n := rapid.IntRange(1, 3).Draw(t, "proglen")
	budget := s.fifoCap()
	for i := 0; i < n && budget > 0; i++ {
		k := g.key(t, s)
		if len(ks) > 0 && rapid.IntRange(0, 3).Draw(t, "progexp") > 0 {
			k = ks[rapid.IntRange(0, len(ks)-1).Draw(t, "progkey")]
		}
		switch rapid.IntRange(0, 10).Draw(t, "progop") {
		case 0:
			prog = append(prog, vfOp{Kind: "get", Key: k})
		case 10:
			prog = append(prog, vfOp{Kind: "iter"}) // enumerate while the sweep is half-way through its bucket
		case 1, 2:
			prog = append(prog, vfOp{Kind: "del", Key: k})
			budget--
		default:
			ttl := int64(0)
			switch rapid.IntRange(0, 3).Draw(t, "progttl") {
			case 0:
				ttl = int64(time.Hour)
			case 1:
				ttl = int64(rapid.IntRange(1, 3000).Draw(t, "progttlms")) * int64(time.Millisecond)
			}
			prog = append(prog, vfOp{Kind: "set", Key: k, Cost: int64(rapid.IntRange(0, 2).Draw(t, "progcost")), TTL: ttl, Tok: s.newTok(k)})
			s.toks[prog[len(prog)-1].Tok].state = tDropped // not issued yet
			budget--
		}
	}
	op := vfOp{Kind: "sweepwith", Prog: prog, J: rapid.IntRange(1, 2).Draw(t, "j")}
	period := time.Duration(s.cfg.TickerSecs) * time.Second / 2
	bucket := time.Duration(s.cfg.BucketSecs) * time.Second
	// prelude: drain the FIFO and let a tick become pending
	g.queue = append(g.queue, vfOp{Kind: "advance", D: int64(period + rapid.SampledFrom([]time.Duration{0, bucket, 2 * bucket}).Draw(t, "preadv"))}, op)
	return vfOp{Kind: "step", N: 1 << 20}
}

// scenario: several short-lived entries in one bucket, applied, expired, then a sweep with
// a program; or an insert applied only after its bucket was swept.
func (g *vfGen) scenario(t *rapid.T, s *vfSM) vfOp {
	bucket := time.Duration(s.cfg.BucketSecs) * time.Second
	period := time.Duration(s.cfg.TickerSecs) * time.Second / 2
	if rapid.Bool().Draw(t, "late") {
		k := g.key(t, s)
		ttl := rapid.SampledFrom([]time.Duration{1, time.Millisecond, time.Second}).Draw(t, "latettl")
		g.queue = append(g.queue,
			vfOp{Kind: "advance", D: int64(2*bucket + period + ttl)},
			vfOp{Kind: "sweep"},
			vfOp{Kind: "step", N: 1 << 20},
			vfOp{Kind: "quiesce"})
		return vfOp{Kind: "set", Key: k, Cost: 1, TTL: int64(ttl)}
	}
	n := rapid.IntRange(2, 5).Draw(t, "nshort")
	for i := 0; i < n; i++ {
		g.queue = append(g.queue, vfOp{Kind: "set", Key: uint64(rapid.IntRange(1, s.cfg.Keys).Draw(t, "skey")), Cost: 1,
			TTL: int64(rapid.IntRange(1, 900).Draw(t, "sttl")) * int64(time.Millisecond)})
		if rapid.IntRange(0, 2).Draw(t, "stepbetween") == 0 {
			g.queue = append(g.queue, vfOp{Kind: "step", N: 1})
		}
	}
	g.queue = append(g.queue, vfOp{Kind: "step", N: 1 << 20})
	first := g.queue[0]
	g.queue = g.queue[1:]
	// the sweepWith prelude is appended when the queue has drained: emit it as a nested scenario
	g.queue = append(g.queue, vfOp{Kind: "advance", D: int64(2*bucket + period)}, vfOp{Kind: "__sweepwith"})
	return first
}

// ---- runner -----------------------------------------------------------------

type vfOutcome struct {
	viol     *vfViol
	diverged string
	resynced int
	sm       *vfSM
}

func vfPick(vs []*vfViol, profile string) (*vfViol, string) {
	if len(vs) == 0 {
		return nil, ""
	}
	for _, v := range vs {
		if v.Owner == profile {
			return v, ""
		}
		if v.Also != "" && strings.Contains(","+v.Also+",", ","+profile+",") {
			cp := *v
			cp.Owner = profile
			cp.Sig = profile + v.Sig[len(v.Owner):]
			return &cp, ""
		}
	}
	return nil, vs[0].Owner + ":" + vs[0].Sig
}

// vfRunCase executes a case inside a synctest bubble (the caller provides the bubble).
func vfRunCase(c *vfCase, next func(s *vfSM) *vfOp) (out vfOutcome) {
	s, restore := vfNewSM(c.Cfg)
	defer restore()
	defer s.shutdown()
	s.twinWanted = c.Profile == "C15"
	out.sm = s
	for {
		op := next(s)
		if op == nil {
			break
		}
		vs := s.exec(op)
		if v, d := vfPick(vs, c.Profile); v != nil || d != "" {
			if v == nil && s.resync(vs) {
				// another property's accounting assertion failed; the model took over the cache's own
				// numbers, so this property's assertions stay meaningful: carry on
				out.resynced++
				continue
			}
			if os.Getenv("VFDBG") != "" {
				for _, x := range vs {
					fmt.Println("DBG-DIVERGED", x.Owner, x.Sig)
				}
			}
			out.viol, out.diverged = v, d
			return
		}
	}
	vs := s.finish()
	out.viol, out.diverged = vfPick(vs, c.Profile)
	return
}

func vfCaseHash(c *vfCase) uint64 {
	h := vfNewHasher()
	h.Add(vfHash(c.Profile, fmt.Sprintf("%+v", c.Cfg)))
	for _, op := range c.Ops {
		h.Add(vfHash(op.Kind, len(op.Prog)))
		h.Add(op.Key)
		h.Add(uint64(op.Cost))
		h.Add(uint64(op.TTL))
		h.Add(uint64(op.N))
		h.Add(uint64(op.D))
	}
	return h.Sum()
}

func vfNonTrivial(id string, st *vfSMStats) (bool, []string) {
	var cl []string
	flag := func(b bool, name string) bool {
		if b {
			cl = append(cl, name)
		}
		return b
	}
	ev := flag(st.evictions > 0, "eviction")
	rej := flag(st.rejections > 0, "rejection")
	drop := flag(st.drops > 0, "buffer-full-drop")
	swp := flag(st.sweepsWithEvict > 0, "expiry-sweep-removed-entries")
	del := flag(st.dels > 0, "del")
	clr := flag(st.clears > 0, "clear")
	flag(st.clearBufferedNew, "clear-found-buffered-new-item")
	flag(st.closedWithParkedSender > 0, "close-with-a-caller-parked-on-the-full-write-buffer")
	flag(st.clearBufferedOther, "clear-found-buffered-update-or-tombstone")
	flag(st.admissionsAfterEvict > 0, "admission-after-eviction")
	flag(st.lateHit > 0, "hit-on-late-applied-insert")
	flag(st.waitWith2 > 0, "wait-with>=2-pending")
	flag(st.nearExpiryObs > 0, "observation-within-1ns-of-expiry")
	flag(st.ttlReplaced > 0, "ttl-replaced-while-pending")
	flag(st.delWithBufferedInsert > 0, "del-while-insert-buffered")
	flag(st.delOnFullBuffer > 0, "del-issued-on-full-buffer")
	flag(st.drainedNonEmpty > 0, "drained-check-with-residents")
	flag(st.sweepMixed > 0, "sweep-with-rewrite-or-late-insert")
	flag(st.midSweepRewrites > 0, "write-during-sweep")
	flag(st.lateApplied > 0, "insert-applied-after-its-expiry")
	flag(st.costLowering > 0, "cost-lowering-overwrite")
	flag(st.costRaising > 0, "cost-raising-overwrite")
	switch id {
	case "C02":
		return (ev || swp || del) && st.drainedNonEmpty > 0, cl
	case "C03":
		return st.admissionsAfterEvict > 0 && st.costChangeBefore, cl
	case "C04":
		return drop && (rej || ev) && clr && (st.clearBufferedNew || st.clearBufferedOther), cl
	case "C05":
		return st.delWithBufferedInsert > 0, cl
	case "C06":
		return st.lateHit > 0 && st.waitWith2 > 0, cl
	case "C07":
		return st.nearExpiryObs > 0 && st.ttlReplaced > 0, cl
	case "C09":
		for _, d := range st.decisions {
			if (d.evictions >= 1 || (d.rejected && d.kind == "needs-room")) && d.pop >= 2 && d.distinctE >= 2 {
				return true, cl
			}
		}
		return false, cl
	case "C13":
		return ev && swp && del && st.drainedNonEmpty > 0, cl
	case "C14":
		return st.sweepMixed > 0, cl
	case "C15":
		return st.clearBufferedNew && st.clearBufferedOther, cl
	case "C17":
		return st.costLowering > 0 && ev && drop, cl
	}
	return false, cl
}

func vfCacheProperty(ev *vfEvidence, profile string) func(t *rapid.T) {
	p := vfProfiles[profile]
	return func(t *rapid.T) {
		c := &vfCase{Profile: profile, Cfg: vfGenCfg(t, p)}
		nops := rapid.IntRange(5, 60).Draw(t, "nops")
		var out vfOutcome
		rapid.SyncTest(t, func(t *rapid.T) {
			g := newVfGen(p)
			out = vfRunCase(c, func(s *vfSM) *vfOp {
				if len(c.Ops) >= nops && len(g.queue) == 0 {
					return nil
				}
				op := g.next(t, s)
				if op.Kind == "__sweepwith" {
					op = g.sweepWith(t, s)
				}
				c.Ops = append(c.Ops, op)
				return &c.Ops[len(c.Ops)-1]
			})
		})
		if out.viol != nil {
			t.Fatalf("%s", vfFail(profile, "cachesm", out.viol.Sig, c, "%s", out.viol.Msg))
		}
		if out.diverged != "" {
			ev.Excluded("diverged_other=" + out.diverged)
			if os.Getenv("VFDBG") != "" {
				b, _ := json.Marshal(c)
				fmt.Println("DBG-DIVERGED-CASE", out.diverged, string(b))
			}
			return
		}
		if out.resynced > 0 {
			ev.Excluded("continued_after_other=C03-accounting(resynced)")
		}
		if out.sm.st.realigned > 0 {
			ev.Excluded("continued_after_other=reference-fifo-realigned-with-write-buffer")
		}
		nt, cl := vfNonTrivial(profile, &out.sm.st)
		ev.Case(nt, vfCaseHash(c), cl...)
		ev.Sample(nt, func() any {
			ops := c.Ops
			if len(ops) > 45 {
				ops = ops[:45]
			}
			return map[string]any{"config": c.Cfg, "n_ops": len(c.Ops), "first_ops": ops}
		})
	}
}

func vfCacheTest(t *testing.T, profile string) {
	ev := vfNewEvidence(t, profile)
	rapid.Check(t, vfCacheProperty(ev, profile))
}

func TestVf_SM_C02(t *testing.T) { vfCacheTest(t, "C02") }
func TestVf_SM_C03(t *testing.T) { vfCacheTest(t, "C03") }
func TestVf_SM_C04(t *testing.T) { vfCacheTest(t, "C04") }
func TestVf_SM_C05(t *testing.T) { vfCacheTest(t, "C05") }
func TestVf_SM_C06(t *testing.T) { vfCacheTest(t, "C06") }
func TestVf_SM_C07(t *testing.T) { vfCacheTest(t, "C07") }
func TestVf_SM_C09(t *testing.T) { vfCacheTest(t, "C09") }
func TestVf_SM_C13(t *testing.T) { vfCacheTest(t, "C13") }
func TestVf_SM_C14(t *testing.T) { vfCacheTest(t, "C14") }
func TestVf_SM_C15(t *testing.T) { vfCacheTest(t, "C15") }
func TestVf_SM_C17(t *testing.T) { vfCacheTest(t, "C17") }

// TestVfReplay_SM re-runs a saved case (plain interpreter, no generator library).
func TestVfReplay_SM(t *testing.T) {
	var c vfCase
	if !vfLoadReplay(t, &c) {
		return
	}
	var out vfOutcome
	// victim sampling and sweep order are the runtime's choice: repeat
	for rep := 0; rep < 25 && out.viol == nil; rep++ {
		synctest.Test(t, func(t *testing.T) {
			i := 0
			cc := c
			cc.Ops = append([]vfOp(nil), c.Ops...)
			out = vfRunCase(&cc, func(s *vfSM) *vfOp {
				if i >= len(cc.Ops) {
					return nil
				}
				i++
				op := &cc.Ops[i-1]
				for j := range op.Prog {
					if op.Prog[j].Kind == "set" {
						op.Prog[j].Tok = s.newTok(op.Prog[j].Key)
						s.toks[op.Prog[j].Tok].state = tDropped
					}
				}
				return op
			})
		})
	}
	if out.viol != nil {
		t.Fatalf("%s", vfFail(c.Profile, "cachesm", out.viol.Sig, &c, "%s", out.viol.Msg))
	}
}
