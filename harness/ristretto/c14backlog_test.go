//go:build verif

package ristretto

// C14, the "eventually ... as long as the cache keeps processing writes" clause, under a sustained write backlog.
// Inside a synctest bubble (fake clock): writers outpace an applier that spends fake time in Config.Cost, so the write
// buffer is never empty when the applier finishes an item. An entry with a TTL expires meanwhile. Once the tick that
// makes its bucket due has fired, every further item the applier takes is one more occasion on which the runtime's
// select could have served the ticker instead; after 20000 such items without the entry being reclaimed the check fails
// (with one fair select per item the chance of that is 2^-20000; with one select per batch of 256 items still 2^-78).
// No wall-clock time enters the verdict.

import (
	"fmt"
	"sync"
	"sync/atomic"
	"testing"
	"testing/synctest"
	"time"

	"pgregory.net/rapid"
)

// vfBacklogItems: how many further items the applier may take after the tick before the check gives up on "eventually".
// Large on purpose: an applier that takes a bounded batch of items per wake-up (16, 64, 256 ...) still passes the
// ticker every batch; only an applier that never looks at the ticker while there is a backlog runs into this bound.
// It costs nothing when the entries are reclaimed, because the wait ends then.
const vfBacklogItems = 20000

type vfBacklogCase struct {
	Writers       int  `json:"writers"`
	SetBufSize    int  `json:"set_buf_size"`
	CostSleepUs   int  `json:"cost_sleep_us"`
	WriterSleepUs int  `json:"writer_sleep_us"`
	TickerSec     int  `json:"ticker_sec"`
	TTLms         int  `json:"ttl_ms"`
	Keys          int  `json:"keys"`
	DelEvery      int  `json:"del_every"` // 0: writers only Set
	TTLEntries    int  `json:"ttl_entries"`
	Metrics       bool `json:"metrics"`
}

type vfBacklogStats struct {
	itemsAfterDue   int64
	backlogSeen     int // samples with a non-empty write buffer
	samples         int
	reclaimed       int
	processingWrite bool
	accepted        int
}

func vfRunBacklog(c *vfBacklogCase) (st vfBacklogStats, sig, msg string) {
	oldBuf, oldBucket := setBufSize, bucketDurationSecs
	setBufSize, bucketDurationSecs = c.SetBufSize, 1
	defer func() { setBufSize, bucketDurationSecs = oldBuf, oldBucket }()
	var applied atomic.Int64
	var mu sync.Mutex
	evicted := map[uint64]int{}
	rejected := map[uint64]int{}
	cache, err := NewCache(&Config[uint64, uint64]{NumCounters: 1000, MaxCost: 1 << 30, BufferItems: 64, IgnoreInternalCost: true,
		TtlTickerDurationInSec: int64(c.TickerSec), Metrics: c.Metrics,
		Cost: func(v uint64) int64 {
			applied.Add(1)
			time.Sleep(time.Duration(c.CostSleepUs) * time.Microsecond)
			return 1
		},
		OnEvict: func(it *Item[uint64]) {
			mu.Lock()
			evicted[it.Value]++
			mu.Unlock()
		},
		// an insert that the cache turns away (for whatever reason) never became an entry: it is settled too
		OnReject: func(it *Item[uint64]) {
			mu.Lock()
			rejected[it.Value]++
			mu.Unlock()
		},
	})
	if err != nil {
		panic(err)
	}
	const base = uint64(1) << 40
	var expiry time.Time
	accepted := 0 // a Set that finds the write buffer full is dropped and says so: such an entry never existed
	for i := 0; i < c.TTLEntries; i++ {
		if cache.SetWithTTL(base+uint64(i), base+uint64(i), 0, time.Duration(c.TTLms)*time.Millisecond) {
			accepted++
		}
	}
	expiry = time.Now().Add(time.Duration(c.TTLms) * time.Millisecond)
	cache.Wait()
	var stop atomic.Bool
	var wg sync.WaitGroup
	for w := 0; w < c.Writers; w++ {
		wg.Add(1)
		go func(w int) {
			defer wg.Done()
			for n := 0; !stop.Load(); n++ {
				k := uint64(1 + (w*7+n)%c.Keys)
				if c.DelEvery > 0 && n%c.DelEvery == c.DelEvery-1 {
					cache.Del(k)
				} else {
					cache.Set(k, uint64(w)<<20|uint64(n&0xfffff), 0)
				}
				time.Sleep(time.Duration(c.WriterSleepUs) * time.Microsecond)
			}
		}(w)
	}
	// the bucket of the entries is due one whole bucket after the second they expire in; one ticker period later the
	// tick that finds it due has certainly fired
	due := time.Unix(expiry.Unix()+1, 0).Add(time.Duration(c.TickerSec) * time.Second / 2).Add(10 * time.Millisecond)
	for time.Now().Before(due) {
		st.samples++
		if len(cache.setBuf) > 0 {
			st.backlogSeen++
		}
		time.Sleep(5 * time.Millisecond)
	}
	at := applied.Load()
	reclaimed := func() int {
		mu.Lock()
		defer mu.Unlock()
		n := 0
		for i := 0; i < c.TTLEntries; i++ {
			n += evicted[base+uint64(i)] + rejected[base+uint64(i)]
		}
		return n
	}
	deadline := time.Now().Add(150 * time.Second)
	for applied.Load()-at < vfBacklogItems && time.Now().Before(deadline) && reclaimed() < accepted {
		st.samples++
		if len(cache.setBuf) > 0 {
			st.backlogSeen++
		}
		time.Sleep(5 * time.Millisecond)
	}
	st.itemsAfterDue = applied.Load() - at
	st.reclaimed = reclaimed()
	st.processingWrite = st.itemsAfterDue >= vfBacklogItems
	st.accepted = accepted
	if st.reclaimed < accepted && st.processingWrite {
		sig = "C14/expired-entry-not-reclaimed-while-writes-are-processed"
		msg = fmt.Sprintf("%d of %d entries whose TTL elapsed at %s were reclaimed although the applier took %d more items after the tick that found their bucket due (now %s)",
			st.reclaimed, accepted, expiry.Format("15:04:05.000"), st.itemsAfterDue, time.Now().Format("15:04:05.000"))
	} else if st.reclaimed > accepted {
		sig = "C14/expired-entry-reported-twice/backlog"
		msg = fmt.Sprintf("%d evictions reported for %d expired entries", st.reclaimed, accepted)
	}
	stop.Store(true)
	wg.Wait()
	cache.Close()
	return st, sig, msg
}

func TestVf_C14_Backlog(t *testing.T) {
	ev := vfNewEvidence(t, "C14")
	rapid.Check(t, func(rt *rapid.T) {
		c := &vfBacklogCase{
			Writers:       rapid.IntRange(1, 6).Draw(rt, "writers"),
			SetBufSize:    rapid.SampledFrom([]int{1, 2, 8, 64, 1024}).Draw(rt, "setBufSize"),
			CostSleepUs:   rapid.SampledFrom([]int{500, 1000, 3000}).Draw(rt, "costSleepUs"),
			WriterSleepUs: rapid.SampledFrom([]int{100, 500, 1000, 5000}).Draw(rt, "writerSleepUs"),
			TickerSec:     rapid.IntRange(1, 3).Draw(rt, "tickerSec"),
			TTLms:         rapid.SampledFrom([]int{1, 300, 1000, 2500}).Draw(rt, "ttlMs"),
			Keys:          rapid.SampledFrom([]int{1, 4, 64}).Draw(rt, "keys"),
			DelEvery:      rapid.SampledFrom([]int{0, 0, 3, 10}).Draw(rt, "delEvery"),
			TTLEntries:    rapid.IntRange(1, 4).Draw(rt, "ttlEntries"),
			Metrics:       rapid.Bool().Draw(rt, "metrics"),
		}
		var st vfBacklogStats
		var sig, msg string
		synctest.Test(t, func(t *testing.T) { st, sig, msg = vfRunBacklog(c) })
		if sig != "" {
			rt.Fatalf("%s", vfFail("C14", "backlog", sig, c, "%s", msg))
		}
		sustained := st.samples > 0 && st.backlogSeen*10 >= st.samples*9 // a backlog at nine of ten sampling instants
		if sustained {
			ev.Class("backlog:write-buffer-non-empty-at-9-of-10-instants", 1)
		}
		if st.reclaimed == st.accepted {
			ev.Class("backlog:reclaimed-under-load", 1)
		}
		ev.Case(sustained && st.accepted > 0 && st.reclaimed == st.accepted,
			vfHash(c.Writers, c.SetBufSize, c.CostSleepUs, c.WriterSleepUs, c.TickerSec, c.TTLms, c.Keys, c.DelEvery, c.TTLEntries, c.Metrics), "backlog-case")
		ev.Sample(sustained, func() any {
			return map[string]any{"backlog": c, "items_after_due": st.itemsAfterDue, "reclaimed": st.reclaimed, "samples_with_backlog": st.backlogSeen}
		})
	})
}

func TestVfReplay_C14Backlog(t *testing.T) {
	var c vfBacklogCase
	if !vfLoadReplay(t, &c) {
		return
	}
	for i := 0; i < 5; i++ {
		var sig, msg string
		synctest.Test(t, func(t *testing.T) { _, sig, msg = vfRunBacklog(&c) })
		if sig != "" {
			t.Fatalf("%s", vfFail("C14", "backlog", sig, &c, "%s", msg))
		}
	}
}
