//go:build verif

package ristretto

// E3 (second half): defaultPolicy.Add judged against the TinyLFU / sampled-LFU
// discipline (property C09). The judge is shared with the cache state machine.

import (
	"fmt"
	"math"
	"sort"
	"strings"
	"testing"

	"pgregory.net/rapid"
)

type vfResident struct {
	Key  uint64 `json:"key"`
	Cost int64  `json:"cost"`
	Freq int    `json:"freq"`
}

type vfPolicyCase struct {
	NumCounters int64        `json:"num_counters"`
	MaxCost     int64        `json:"max_cost"`
	Pop         []vfResident `json:"population"`
	In          vfResident   `json:"incoming"`
	Noise       []uint64     `json:"noise,omitempty"`  // other keys whose accesses share counters
	Recost      []vfResident `json:"recost,omitempty"` // cost updates of resident keys applied before the judged decision
}

// vfDecision is what the judge needs to know about the state just before the decision.
type vfDecision struct {
	MaxCost  int64
	Used     int64
	Costs    map[uint64]int64 // resident key -> accounted cost
	Est      map[uint64]int64 // estimate of every resident key
	InKey    uint64
	InCost   int64
	InEst    int64
	Victims  []uint64 // keys in the order reported
	Added    bool
	Rejected bool // reported through OnReject (cache level) / !added (policy level)
}

type vfDecisionStats struct {
	evictions int
	phantoms  int
	rejected  bool
	exactMin  int
	distinctE int
	pop       int
	kind      string
}

// vfJudge validates one admission decision. It returns the signature of the first
// broken rule, or "".
func vfJudge(d *vfDecision) (st vfDecisionStats, sig, msg string) {
	st.pop = len(d.Costs)
	ests := map[int64]bool{}
	for k := range d.Costs {
		ests[d.Est[k]] = true
	}
	st.distinctE = len(ests)
	if d.InCost > d.MaxCost {
		st.kind = "too-large"
		if d.Added || len(d.Victims) > 0 {
			return st, "C09/too-large-admitted", fmt.Sprintf("cost %d > MaxCost %d but added=%v victims=%v", d.InCost, d.MaxCost, d.Added, d.Victims)
		}
		st.rejected = true
		return st, "", ""
	}
	if _, ok := d.Costs[d.InKey]; ok {
		st.kind = "already-resident"
		if d.Added || len(d.Victims) > 0 {
			return st, "C09/resident-key-added", fmt.Sprintf("key %d is already resident but added=%v victims=%v", d.InKey, d.Added, d.Victims)
		}
		st.rejected = true
		return st, "", ""
	}
	if vfFits(d.Used, d.InCost, d.MaxCost) {
		st.kind = "fits"
		if !d.Added {
			return st, "C09/fitting-item-rejected", fmt.Sprintf("item of cost %d fits (used %d, MaxCost %d) but was not admitted", d.InCost, d.Used, d.MaxCost)
		}
		if len(d.Victims) > 0 {
			return st, "C09/eviction-although-it-fits", fmt.Sprintf("item of cost %d fits (used %d, MaxCost %d) but %v were evicted", d.InCost, d.Used, d.MaxCost, d.Victims)
		}
		return st, "", ""
	}
	st.kind = "needs-room"
	// current resident set
	R := map[uint64]int64{}
	for k, c := range d.Costs {
		R[k] = c
	}
	used := d.Used
	exact := len(d.Costs) <= lfuSample
	seen := map[uint64]bool{}
	realIdx := 0
	for _, v := range d.Victims {
		if seen[v] {
			st.phantoms++
			continue // a stale duplicate of the sample: nothing is evicted
		}
		seen[v] = true
		realIdx++
		c, ok := R[v]
		if !ok {
			return st, "C09/victim-not-resident", fmt.Sprintf("victim %d was not resident (residents %v)", v, vfKeys(R))
		}
		if vfFits(used, d.InCost, d.MaxCost) {
			return st, "C09/eviction-after-room-was-made", fmt.Sprintf("victim %d evicted although the newcomer (cost %d) already fits: used %d MaxCost %d", v, d.InCost, used, d.MaxCost)
		}
		if d.Est[v] > d.InEst {
			return st, "C09/victim-more-frequent-than-newcomer", fmt.Sprintf("victim %d has estimate %d > newcomer's %d", v, d.Est[v], d.InEst)
		}
		smaller := 0
		for k := range R {
			if d.Est[k] < d.Est[v] {
				smaller++
			}
		}
		if exact {
			st.exactMin++
			if smaller > 0 {
				return st, "C09/victim-not-least-frequent", fmt.Sprintf("population %d <= sample size: victim %d has estimate %d but a resident with a smaller estimate exists (%v)", len(d.Costs), v, d.Est[v], vfEsts(R, d.Est))
			}
		} else {
			dmin := lfuSample - (realIdx - 1)
			if dmin < 1 {
				dmin = 1
			}
			if smaller > len(R)-dmin {
				return st, "C09/victim-not-least-frequent", fmt.Sprintf("victim %d (estimate %d) cannot be the minimum of %d distinct residents: %d of %d residents have a smaller estimate", v, d.Est[v], dmin, smaller, len(R))
			}
		}
		used -= c
		delete(R, v)
		st.evictions++
	}
	if d.Added {
		if !vfFits(used, d.InCost, d.MaxCost) {
			return st, "C03/admitted-without-room", fmt.Sprintf("newcomer cost %d admitted with used %d MaxCost %d after evicting %v", d.InCost, used, d.MaxCost, d.Victims)
		}
		return st, "", ""
	}
	st.rejected = true
	// turned away: only allowed if the newcomer's estimate is strictly lower than that of the least frequent candidate
	if vfFits(used, d.InCost, d.MaxCost) {
		return st, "C09/rejected-although-room-was-made", fmt.Sprintf("newcomer cost %d rejected with used %d MaxCost %d after evicting %v", d.InCost, used, d.MaxCost, d.Victims)
	}
	maxE, minE := int64(-1), int64(1<<62)
	for k := range R {
		if d.Est[k] > maxE {
			maxE = d.Est[k]
		}
		if d.Est[k] < minE {
			minE = d.Est[k]
		}
	}
	if len(R) == 0 {
		return st, "C09/rejected-without-candidates", "newcomer rejected although no resident is left to compare with"
	}
	if exact {
		if !(minE > d.InEst) {
			return st, "C09/rejected-without-being-outvoted", fmt.Sprintf("population %d <= sample size: newcomer (estimate %d) rejected but the least frequent resident has estimate %d (%v)", len(d.Costs), d.InEst, minE, vfEsts(R, d.Est))
		}
	} else if !(maxE > d.InEst) {
		return st, "C09/rejected-without-being-outvoted", fmt.Sprintf("newcomer (estimate %d) rejected but no resident has a larger estimate (%v)", d.InEst, vfEsts(R, d.Est))
	}
	return st, "", ""
}

// vfFits: used + cost <= max without overflowing int64 (costs may be of the order of 2^62).
func vfFits(used, cost, max int64) bool {
	if used > max {
		return cost <= 0 && used+cost <= max
	}
	return cost <= max-used
}

func vfKeys(m map[uint64]int64) []uint64 {
	ks := make([]uint64, 0, len(m))
	for k := range m {
		ks = append(ks, k)
	}
	sort.Slice(ks, func(i, j int) bool { return ks[i] < ks[j] })
	return ks
}

func vfEsts(R map[uint64]int64, est map[uint64]int64) string {
	s := ""
	for _, k := range vfKeys(R) {
		s += fmt.Sprintf("%d:%d ", k, est[k])
	}
	return s
}

func vfRunPolicyCase(c *vfPolicyCase) (st vfDecisionStats, sig, msg string) {
	p := newDefaultPolicy[uint64](c.NumCounters, c.MaxCost)
	defer p.Close()
	for _, r := range c.Pop {
		if v, added := p.Add(r.Key, r.Cost); !added || len(v) != 0 {
			// population is built through the fast path by construction; if this fails the
			// generator is wrong, not the policy (unless the fast path itself is broken: C09 rule 1)
			return st, "C09/fitting-item-rejected", fmt.Sprintf("building the population: Add(%d,%d) -> victims %d added %v (used %d max %d)", r.Key, r.Cost, len(v), added, p.evict.used, c.MaxCost)
		}
	}
	// interleave the accesses round-robin so that aging resets hit all keys alike
	maxf := c.In.Freq
	for _, r := range c.Pop {
		if r.Freq > maxf {
			maxf = r.Freq
		}
	}
	for i := 0; i < maxf; i++ {
		for _, r := range c.Pop {
			if i < r.Freq {
				p.admit.Increment(r.Key)
			}
		}
		if i < c.In.Freq {
			p.admit.Increment(c.In.Key)
		}
		for _, n := range c.Noise {
			p.admit.Increment(n)
		}
	}
	for _, r := range c.Recost {
		p.Update(r.Key, r.Cost)
	}
	// Used: the sum of the resident keys' costs - that is the "remaining capacity" a newcomer has to fit in
	d := &vfDecision{MaxCost: c.MaxCost, Costs: map[uint64]int64{}, Est: map[uint64]int64{},
		InKey: c.In.Key, InCost: c.In.Cost, InEst: p.admit.Estimate(c.In.Key)}
	for k, cost := range p.evict.keyCosts {
		d.Costs[k] = cost
		d.Used += cost
		d.Est[k] = p.admit.Estimate(k)
	}
	if d.Used != p.evict.used {
		return st, "C03/used-differs-from-sum-of-costs", fmt.Sprintf("before the decision: used=%d, sum of accounted costs %d", p.evict.used, d.Used)
	}
	_, wasResident := d.Costs[c.In.Key]
	victims, added := p.Add(c.In.Key, c.In.Cost)
	for _, v := range victims {
		d.Victims = append(d.Victims, v.Key)
	}
	d.Added = added
	st, sig, msg = vfJudge(d)
	if sig != "" {
		return
	}
	// the accounting must reflect the decision
	want := map[uint64]int64{}
	for k, cst := range d.Costs {
		want[k] = cst
	}
	for _, v := range d.Victims {
		delete(want, v)
	}
	if wasResident {
		if c.In.Cost <= c.MaxCost {
			want[c.In.Key] = c.In.Cost // "overwrites ... raise a resident key's cost": the accounted cost follows
		}
	} else if added {
		want[c.In.Key] = c.In.Cost
	}
	var used int64
	for _, cst := range want {
		used += cst
	}
	if len(want) != len(p.evict.keyCosts) || used != p.evict.used {
		return st, "C03/accounting-after-decision", fmt.Sprintf("after Add: accounted keys %v used %d, expected keys %v used %d", vfKeys(p.evict.keyCosts), p.evict.used, vfKeys(want), used)
	}
	for k, cst := range want {
		if p.evict.keyCosts[k] != cst {
			return st, "C03/accounting-after-decision", fmt.Sprintf("after Add: key %d accounted %d expected %d", k, p.evict.keyCosts[k], cst)
		}
	}
	// victims carry the accounted cost of the evicted key
	for _, v := range victims {
		if cst, ok := d.Costs[v.Key]; ok && v.Cost != cst {
			return st, "C03/victim-cost", fmt.Sprintf("victim %d reported with cost %d, accounted %d", v.Key, v.Cost, cst)
		}
	}
	return
}

func vfGenPolicyCase(t *rapid.T) *vfPolicyCase {
	c := &vfPolicyCase{}
	switch rapid.IntRange(0, 3).Draw(t, "ncmode") {
	case 0:
		c.NumCounters = int64(rapid.IntRange(2, 512).Draw(t, "nc"))
	case 1:
		c.NumCounters = int64(rapid.IntRange(2, 16).Draw(t, "nc"))
	default:
		c.NumCounters = int64(rapid.IntRange(64, 512).Draw(t, "nc"))
	}
	npop := rapid.IntRange(0, 12).Draw(t, "npop")
	if rapid.IntRange(0, 2).Draw(t, "smallpop") == 0 {
		npop = rapid.IntRange(1, lfuSample).Draw(t, "npop2")
	}
	costMode := rapid.IntRange(0, 2).Draw(t, "costmode")
	freqMode := rapid.IntRange(0, 2).Draw(t, "freqmode")
	var sum int64
	// key hash 0 is an ordinary key (Set(uint64(0), ...)), and so is the largest one
	base := uint64(rapid.SampledFrom([]int{1, 1, 0}).Draw(t, "keybase"))
	for i := 0; i < npop; i++ {
		r := vfResident{Key: base + uint64(i)}
		if i == npop-1 && rapid.IntRange(0, 7).Draw(t, "maxkey") == 0 {
			r.Key = math.MaxUint64
		}
		if rapid.IntRange(0, 5).Draw(t, "bigkey") == 0 {
			r.Key = rapid.Uint64Range(100, 1<<62).Draw(t, "key")
		}
		dup := false
		for _, o := range c.Pop {
			if o.Key == r.Key {
				dup = true
			}
		}
		if dup {
			continue
		}
		switch costMode {
		case 0:
			r.Cost = 1
		case 1:
			r.Cost = int64(rapid.IntRange(1, 10).Draw(t, "cost"))
		default:
			r.Cost = int64(rapid.IntRange(0, 100).Draw(t, "cost"))
		}
		switch freqMode {
		case 0:
			r.Freq = rapid.IntRange(0, 20).Draw(t, "freq")
		case 1:
			r.Freq = rapid.IntRange(0, 3).Draw(t, "freq")
		default:
			r.Freq = rapid.SampledFrom([]int{0, 1, 2, 5, 5, 5, 16, 20}).Draw(t, "freq")
		}
		sum += r.Cost
		c.Pop = append(c.Pop, r)
	}
	huge := rapid.IntRange(0, 9).Draw(t, "huge") == 0
	if huge {
		// capacities and costs near the top of int64 ("every MaxCost", "arbitrary non-negative costs")
		unit := int64(1) << rapid.IntRange(58, 61).Draw(t, "unit")
		sum = 0
		for i := range c.Pop {
			c.Pop[i].Cost = unit * int64(rapid.IntRange(0, 2).Draw(t, "hugecost"))
			if sum > (1<<62)-c.Pop[i].Cost {
				c.Pop[i].Cost = 0
			}
			sum += c.Pop[i].Cost
		}
	}
	slack := int64(0)
	switch rapid.IntRange(0, 3).Draw(t, "slackmode") {
	case 0:
	case 1:
		slack = int64(rapid.IntRange(0, 3).Draw(t, "slack"))
	default:
		slack = int64(rapid.IntRange(0, 60).Draw(t, "slack"))
	}
	c.MaxCost = sum + slack
	if huge {
		c.MaxCost = rapid.SampledFrom([]int64{1<<63 - 1, 3 << 61, 1 << 62, sum + slack}).Draw(t, "hugemax")
		if c.MaxCost < sum {
			c.MaxCost = 1<<63 - 1
		}
		slack = c.MaxCost - sum
	}
	if c.MaxCost <= 0 {
		c.MaxCost = 1
	}
	// cost updates of residents before the decision (lowering frees room the newcomer may need; raising is capped by the slack)
	if len(c.Pop) > 0 && rapid.IntRange(0, 2).Draw(t, "recost") == 0 {
		n := rapid.IntRange(1, 3).Draw(t, "nrecost")
		for i := 0; i < n; i++ {
			r := c.Pop[rapid.IntRange(0, len(c.Pop)-1).Draw(t, "recostidx")]
			nc := int64(rapid.IntRange(0, int(r.Cost)).Draw(t, "recostto"))
			c.Recost = append(c.Recost, vfResident{Key: r.Key, Cost: nc})
		}
	}
	c.In.Key = uint64(1000 + rapid.IntRange(0, 5).Draw(t, "inkey"))
	if base == 1 && rapid.IntRange(0, 9).Draw(t, "inzero") == 0 {
		c.In.Key = 0
	}
	if len(c.Pop) > 0 && rapid.IntRange(0, 9).Draw(t, "inresident") == 0 {
		c.In.Key = c.Pop[rapid.IntRange(0, len(c.Pop)-1).Draw(t, "inidx")].Key
	}
	switch rapid.IntRange(0, 9).Draw(t, "incostmode") {
	case 0:
		c.In.Cost = c.MaxCost + int64(rapid.IntRange(1, 5).Draw(t, "over"))
		if c.In.Cost < 0 {
			c.In.Cost = c.MaxCost // (MaxCost is the largest int64: nothing is larger)
		}
	case 1:
		c.In.Cost = c.MaxCost
	case 2:
		c.In.Cost = slack
	case 3:
		c.In.Cost = slack + 1
	case 4:
		c.In.Cost = 0
	default:
		c.In.Cost = rapid.Int64Range(1, c.MaxCost).Draw(t, "incost")
	}
	if huge && rapid.Bool().Draw(t, "hugein") {
		c.In.Cost = (int64(1) << rapid.IntRange(59, 62).Draw(t, "inunit")) - int64(rapid.IntRange(0, 1).Draw(t, "inminus"))
	}
	if c.In.Cost < 0 {
		c.In.Cost = c.MaxCost // an int64 wrap-around of the generator, not a cost anybody can pass
	}
	c.In.Freq = rapid.IntRange(0, 20).Draw(t, "infreq")
	if freqMode == 1 {
		c.In.Freq = rapid.IntRange(0, 4).Draw(t, "infreq2")
	}
	nn := rapid.IntRange(0, 3).Draw(t, "nnoise")
	for i := 0; i < nn; i++ {
		c.Noise = append(c.Noise, rapid.Uint64Range(2000, 2100).Draw(t, "noise"))
	}
	return c
}

func vfPolicyEvidence(ev *vfEvidence, prefix string, st vfDecisionStats, hash uint64, sample func() any) {
	nt := (st.evictions >= 1 || (st.rejected && st.kind == "needs-room")) && st.pop >= 2 && st.distinctE >= 2
	cl := []string{prefix + "decision:" + st.kind}
	if st.evictions > 0 {
		cl = append(cl, prefix+"decision-with-eviction")
	}
	if st.rejected && st.kind == "needs-room" {
		cl = append(cl, prefix+"decision-outvoted")
	}
	if st.exactMin > 0 {
		cl = append(cl, prefix+"exact-minimum-checked")
	}
	if st.phantoms > 0 {
		cl = append(cl, prefix+"phantom-repeat-victim")
	}
	if st.pop > lfuSample {
		cl = append(cl, prefix+"population>sample")
	}
	ev.Case(nt, hash, cl...)
	ev.Sample(nt, sample)
}

func vfPolicyTest(t *testing.T, owner string) {
	ev := vfNewEvidence(t, owner)
	rapid.Check(t, func(t *rapid.T) {
		c := vfGenPolicyCase(t)
		st, sig, msg := vfRunPolicyCase(c)
		if strings.HasPrefix(sig, owner+"/") {
			t.Fatalf("%s", vfFail(owner, "policy", sig, c, "%s", msg))
		} else if sig != "" {
			ev.Excluded("diverged_other=" + sig) // an assertion of the shared judge that belongs to the other property
			return
		}
		h := vfNewHasher()
		h.Add(uint64(c.NumCounters))
		h.Add(uint64(c.MaxCost))
		for _, r := range append(append([]vfResident{}, c.Pop...), c.In) {
			h.Add(r.Key)
			h.Add(uint64(r.Cost))
			h.Add(uint64(r.Freq))
		}
		vfPolicyEvidence(ev, "policy:", st, h.Sum(), func() any { return c })
	})
}

// C09: the choice of victims / rejection. C03: the accounting of the same decisions (admitted only with
// room, accounted keys and used after the decision, victims reported with their accounted cost).
func TestVf_C09_Policy(t *testing.T) { vfPolicyTest(t, "C09") }
func TestVf_C03_Policy(t *testing.T) { vfPolicyTest(t, "C03") }

func TestVfReplay_C09(t *testing.T) {
	var c vfPolicyCase
	if !vfLoadReplay(t, &c) {
		return
	}
	// the sampling order is the runtime's choice: repeat the decision
	for i := 0; i < 300; i++ {
		if _, sig, msg := vfRunPolicyCase(&c); sig != "" {
			t.Fatalf("%s", vfFail(sig[:3], "policy", sig, &c, "%s", msg))
		}
	}
}
