//go:build verif

package ristretto

// E3 (first half): cmSketch / tinyLFU against a reference counter table (property C18).

import (
	"fmt"
	"testing"

	"pgregory.net/rapid"
)

type vfSketchOp struct {
	Kind string `json:"kind"` // inc est reset clear
	H    uint64 `json:"h,omitempty"`
	N    int    `json:"n,omitempty"` // inc: repeat count
}

type vfSketchCase struct {
	NumCounters int64        `json:"num_counters"`
	Seeds       [4]uint64    `json:"seeds"` // 0 = keep the random seeds
	Ops         []vfSketchOp `json:"ops"`
}

type vfRefSketch struct {
	rows [cmDepth][]uint8
	seed [cmDepth]uint64
	mask uint64
}

func (r *vfRefSketch) inc(h uint64) {
	for i := range r.rows {
		j := (h ^ r.seed[i]) & r.mask
		if r.rows[i][j] < 15 {
			r.rows[i][j]++
		}
	}
}
func (r *vfRefSketch) est(h uint64) int64 {
	m := uint8(255)
	for i := range r.rows {
		if v := r.rows[i][(h^r.seed[i])&r.mask]; v < m {
			m = v
		}
	}
	return int64(m)
}

func vfSketchCompare(s *cmSketch, ref *vfRefSketch) (bool, string) {
	for i := range s.rows {
		if len(s.rows[i])*2 != len(ref.rows[i]) {
			return false, fmt.Sprintf("row %d has %d counters, reference %d", i, len(s.rows[i])*2, len(ref.rows[i]))
		}
		for j := range ref.rows[i] {
			if got := s.rows[i].get(uint64(j)); got != ref.rows[i][j] {
				return false, fmt.Sprintf("row %d counter %d = %d, reference %d", i, j, got, ref.rows[i][j])
			}
		}
	}
	return true, ""
}

type vfSketchStats struct {
	saturated      bool
	resetAfterSat  bool
	resets, clears int
	executed       int
}

func vfRunSketchCase(c *vfSketchCase) (st vfSketchStats, sig, msg string) {
	defer func() {
		if p := recover(); p != nil {
			sig, msg = "C18/sketch/panic", fmt.Sprintf("panic: %v", p)
		}
	}()
	s := newCmSketch(c.NumCounters)
	want := next2Power(c.NumCounters)
	// independent computation of the next power of two
	p2 := int64(1)
	for p2 < c.NumCounters {
		p2 <<= 1
	}
	for i := range s.rows {
		if int64(len(s.rows[i]))*2 != p2 || want != p2 {
			return st, "C18/sketch/table-size", fmt.Sprintf("NumCounters=%d: row %d holds %d counters, next power of two is %d (next2Power says %d)",
				c.NumCounters, i, len(s.rows[i])*2, p2, want)
		}
	}
	if s.mask != uint64(p2-1) {
		return st, "C18/sketch/table-size", fmt.Sprintf("mask %#x for %d counters", s.mask, p2)
	}
	for i := range c.Seeds {
		if c.Seeds[i] != 0 {
			s.seed[i] = c.Seeds[i]
		}
	}
	c.Seeds = s.seed // replay uses the same seeds
	ref := &vfRefSketch{seed: s.seed, mask: s.mask}
	for i := range ref.rows {
		ref.rows[i] = make([]uint8, p2)
	}
	full := p2 <= 256
	for i := range c.Ops {
		op := &c.Ops[i]
		st.executed = i + 1
		switch op.Kind {
		case "inc":
			for n := 0; n < op.N; n++ {
				before := s.Estimate(op.H)
				s.Increment(op.H)
				ref.inc(op.H)
				after := s.Estimate(op.H)
				if after < before {
					return st, "C18/sketch/increment-lowered", fmt.Sprintf("Increment(%#x) lowered its estimate %d -> %d", op.H, before, after)
				}
				if after >= 15 {
					st.saturated = true
				}
			}
		case "est":
		case "reset":
			s.Reset()
			for r := range ref.rows {
				for j := range ref.rows[r] {
					ref.rows[r][j] >>= 1
				}
			}
			st.resets++
			if st.saturated {
				st.resetAfterSat = true
			}
		case "clear":
			s.Clear()
			for r := range ref.rows {
				for j := range ref.rows[r] {
					ref.rows[r][j] = 0
				}
			}
			st.clears++
		}
		if got, want := s.Estimate(op.H), ref.est(op.H); got != want {
			return st, "C18/sketch/estimate-differs", fmt.Sprintf("after %s: Estimate(%#x)=%d, reference %d", op.Kind, op.H, got, want)
		}
		if full || op.Kind == "reset" || op.Kind == "clear" || i == len(c.Ops)-1 {
			if ok, m := vfSketchCompare(s, ref); !ok {
				return st, "C18/sketch/table-differs/" + op.Kind, fmt.Sprintf("after %s(%#x x%d): %s", op.Kind, op.H, op.N, m)
			}
		}
	}
	return st, "", ""
}

func vfGenSketchHash(t *rapid.T, mask uint64, used []uint64) uint64 {
	switch rapid.IntRange(0, 7).Draw(t, "hmode") {
	case 0, 1:
		if len(used) > 0 {
			return used[rapid.IntRange(0, len(used)-1).Draw(t, "hidx")]
		}
		fallthrough
	case 2:
		// same low bits as a used hash: shares every counter with it
		if len(used) > 0 {
			b := used[rapid.IntRange(0, len(used)-1).Draw(t, "hidx")]
			return (b & mask) | (rapid.Uint64().Draw(t, "hi") &^ mask)
		}
		fallthrough
	case 3:
		// neighbour counter in the same byte
		if len(used) > 0 {
			return used[rapid.IntRange(0, len(used)-1).Draw(t, "hidx")] ^ 1
		}
		fallthrough
	case 4:
		return rapid.Uint64Range(0, 16).Draw(t, "h")
	default:
		return rapid.Uint64().Draw(t, "h")
	}
}

func vfGenNumCounters(t *rapid.T) int64 {
	switch rapid.IntRange(0, 13).Draw(t, "ncmode") {
	case 0, 1:
		return int64(rapid.IntRange(2, 4096).Draw(t, "nc"))
	case 2, 3:
		return int64(1) << rapid.UintRange(1, 12).Draw(t, "ncexp")
	case 4, 5:
		return (int64(1) << rapid.UintRange(2, 12).Draw(t, "ncexp")) + int64(rapid.IntRange(-1, 1).Draw(t, "ncd"))
	case 6:
		// large tables (up to 1 Mi counters per row, 2 MiB per sketch), around the powers of two
		return (int64(1) << rapid.UintRange(13, 20).Draw(t, "ncexpbig")) + int64(rapid.IntRange(-2, 3).Draw(t, "ncdbig"))
	default:
		return int64(rapid.IntRange(2, 40).Draw(t, "nc"))
	}
}

func vfGenSketchCase(t *rapid.T) *vfSketchCase {
	c := &vfSketchCase{NumCounters: vfGenNumCounters(t)}
	if rapid.Bool().Draw(t, "fixseed") {
		for i := range c.Seeds {
			c.Seeds[i] = rapid.Uint64Range(1, 1<<63).Draw(t, "seed")
		}
	}
	mask := uint64(next2Power(c.NumCounters) - 1)
	nops := rapid.IntRange(1, 80).Draw(t, "nops")
	var used []uint64
	for i := 0; i < nops; i++ {
		w := rapid.IntRange(0, 99).Draw(t, "op")
		switch {
		case w < 70:
			h := vfGenSketchHash(t, mask, used)
			used = append(used, h)
			n := rapid.IntRange(1, 4).Draw(t, "n")
			if rapid.IntRange(0, 4).Draw(t, "burst") == 0 {
				n = rapid.IntRange(10, 40).Draw(t, "n2")
			}
			c.Ops = append(c.Ops, vfSketchOp{Kind: "inc", H: h, N: n})
		case w < 82:
			c.Ops = append(c.Ops, vfSketchOp{Kind: "est", H: vfGenSketchHash(t, mask, used)})
		case w < 96:
			c.Ops = append(c.Ops, vfSketchOp{Kind: "reset", H: vfGenSketchHash(t, mask, used)})
		default:
			c.Ops = append(c.Ops, vfSketchOp{Kind: "clear", H: vfGenSketchHash(t, mask, used)})
		}
	}
	return c
}

// ---- tinyLFU ---------------------------------------------------------------

type vfLFUCase struct {
	NumCounters int64        `json:"num_counters"`
	Ops         []vfSketchOp `json:"ops"` // inc est clear
}

type vfLFUStats struct {
	resets, executed int
	saturated        bool
	resetAfterSat    bool
}

func vfRunLFUCase(c *vfLFUCase) (st vfLFUStats, sig, msg string) {
	defer func() {
		if p := recover(); p != nil {
			sig, msg = "C18/lfu/panic", fmt.Sprintf("panic: %v", p)
		}
	}()
	p := newTinyLFU(c.NumCounters)
	if p.resetAt != c.NumCounters {
		return st, "C18/lfu/reset-period", fmt.Sprintf("resetAt=%d for NumCounters=%d", p.resetAt, c.NumCounters)
	}
	sinceReset := map[uint64]int{} // recorded accesses per key since the last aging reset
	order := []uint64{}
	total := int64(0)
	snapshotCounters := func() [cmDepth][]uint8 {
		var out [cmDepth][]uint8
		for i := range p.freq.rows {
			out[i] = make([]uint8, len(p.freq.rows[i])*2)
			for j := range out[i] {
				out[i][j] = p.freq.rows[i].get(uint64(j))
			}
		}
		return out
	}
	for i := range c.Ops {
		op := &c.Ops[i]
		st.executed = i + 1
		switch op.Kind {
		case "inc":
			for n := 0; n < op.N; n++ {
				// estimates of all tracked keys before
				before := make([]int64, len(order))
				for j, k := range order {
					before[j] = p.Estimate(k)
				}
				var counters [cmDepth][]uint8
				willReset := total+1 >= c.NumCounters
				if willReset {
					counters = snapshotCounters()
				}
				doorHad := p.door.Has(op.H) // with the first-access mark already set, this access increments the counters
				p.Increment(op.H)
				total++
				if willReset != (p.incrs == 0) {
					return st, "C18/lfu/reset-period", fmt.Sprintf("after %d recorded accesses (NumCounters=%d): incrs=%d, reset expected=%v", total, c.NumCounters, p.incrs, willReset)
				}
				if willReset {
					st.resets++
					if st.saturated {
						st.resetAfterSat = true
					}
					total = 0
					// the increment was applied first, then every counter halved, marks forgotten
					ref := &vfRefSketch{seed: p.freq.seed, mask: p.freq.mask, rows: counters}
					// each counter is old>>1, except the cells of op.H when its first-access mark was already set: (old+1)>>1
					cells := map[[2]int]bool{}
					for r := range ref.rows {
						cells[[2]int{r, int((op.H ^ ref.seed[r]) & ref.mask)}] = true
					}
					now := snapshotCounters()
					for r := range now {
						for j := range now[r] {
							old := counters[r][j]
							want := old >> 1
							if cells[[2]int{r, j}] && doorHad {
								// the access is recorded first (saturating), then the reset halves
								inc := old
								if inc < 15 {
									inc++
								}
								want = inc >> 1
							}
							if now[r][j] != want {
								return st, "C18/lfu/reset-not-halving", fmt.Sprintf("aging reset triggered by an access of %#x (mark set before: %v): row %d counter %d was %d, now %d, want %d", op.H, doorHad, r, j, old, now[r][j], want)
							}
						}
					}
					for _, k := range order {
						if p.door.Has(k) {
							return st, "C18/lfu/reset-keeps-marks", fmt.Sprintf("first-access mark of %#x survived the aging reset", k)
						}
						if e, c := p.Estimate(k), p.freq.Estimate(k); e != c {
							return st, "C18/lfu/estimate-composition", fmt.Sprintf("right after the aging reset Estimate(%#x)=%d, its halved counters say %d and no mark is set", k, e, c)
						}
					}
					if p.door.Has(op.H) {
						return st, "C18/lfu/reset-keeps-marks", fmt.Sprintf("first-access mark of %#x survived the aging reset", op.H)
					}
					sinceReset = map[uint64]int{}
					continue
				}
				if _, ok := sinceReset[op.H]; !ok {
					found := false
					for _, k := range order {
						if k == op.H {
							found = true
						}
					}
					if !found {
						order = append(order, op.H)
						before = append(before, 0)
					}
				}
				sinceReset[op.H]++
				for j, k := range order {
					after := p.Estimate(k)
					// the estimate is the counter minimum plus one iff the first-access mark is set - nothing else
					want := p.freq.Estimate(k)
					if p.door.Has(k) {
						want++
					}
					if after != want {
						return st, "C18/lfu/estimate-composition", fmt.Sprintf("Estimate(%#x)=%d but its counters say %d and its first-access mark is %v", k, after, p.freq.Estimate(k), p.door.Has(k))
					}
					if after < before[j] {
						return st, "C18/lfu/increment-lowered", fmt.Sprintf("recording an access of %#x lowered the estimate of %#x: %d -> %d", op.H, k, before[j], after)
					}
					if after > 16 {
						return st, "C18/lfu/estimate-above-16", fmt.Sprintf("Estimate(%#x)=%d", k, after)
					}
					if after >= 16 {
						st.saturated = true
					}
					n := sinceReset[k]
					min := int64(n)
					if min > 15 {
						min = 15
					}
					if after < min {
						return st, "C18/lfu/under-count", fmt.Sprintf("Estimate(%#x)=%d after %d recorded accesses since the last reset", k, after, n)
					}
				}
			}
		case "est":
			e := p.Estimate(op.H)
			if e < 0 || e > 16 {
				return st, "C18/lfu/estimate-above-16", fmt.Sprintf("Estimate(%#x)=%d", op.H, e)
			}
		case "clear":
			p.clear()
			total = 0
			sinceReset = map[uint64]int{}
			for _, k := range append(append([]uint64{}, order...), op.H) {
				if e := p.Estimate(k); e != 0 {
					return st, "C18/lfu/clear-leaves-state", fmt.Sprintf("Estimate(%#x)=%d after clear", k, e)
				}
			}
			now := snapshotCounters()
			for r := range now {
				for j := range now[r] {
					if now[r][j] != 0 {
						return st, "C18/lfu/clear-leaves-state", fmt.Sprintf("row %d counter %d = %d after clear", r, j, now[r][j])
					}
				}
			}
		}
	}
	return st, "", ""
}

func vfGenLFUCase(t *rapid.T) *vfLFUCase {
	c := &vfLFUCase{}
	switch rapid.IntRange(0, 4).Draw(t, "ncmode") {
	case 0:
		c.NumCounters = int64(rapid.IntRange(2, 512).Draw(t, "nc"))
	case 1:
		c.NumCounters = int64(rapid.IntRange(2, 8).Draw(t, "nc"))
	default:
		c.NumCounters = int64(rapid.IntRange(8, 64).Draw(t, "nc"))
	}
	mask := uint64(next2Power(c.NumCounters) - 1)
	nops := rapid.IntRange(1, 60).Draw(t, "nops")
	var used []uint64
	for i := 0; i < nops; i++ {
		w := rapid.IntRange(0, 99).Draw(t, "op")
		switch {
		case w < 80:
			h := vfGenSketchHash(t, mask, used)
			used = append(used, h)
			n := rapid.IntRange(1, 3).Draw(t, "n")
			if rapid.IntRange(0, 3).Draw(t, "burst") == 0 {
				n = rapid.IntRange(8, 40).Draw(t, "n2")
			}
			c.Ops = append(c.Ops, vfSketchOp{Kind: "inc", H: h, N: n})
		case w < 96:
			c.Ops = append(c.Ops, vfSketchOp{Kind: "est", H: vfGenSketchHash(t, mask, used)})
		default:
			c.Ops = append(c.Ops, vfSketchOp{Kind: "clear", H: vfGenSketchHash(t, mask, used)})
		}
	}
	return c
}

func TestVf_C18_Sketch(t *testing.T) {
	ev := vfNewEvidence(t, "C18")
	rapid.Check(t, func(t *rapid.T) {
		c := vfGenSketchCase(t)
		st, sig, msg := vfRunSketchCase(c)
		if sig != "" {
			cc := *c
			cc.Ops = cc.Ops[:st.executed]
			t.Fatalf("%s", vfFail("C18", "sketch", sig, &cc, "%s", msg))
		}
		h := vfNewHasher()
		h.Add(uint64(c.NumCounters))
		for _, op := range c.Ops {
			h.Add(uint64(len(op.Kind)))
			h.Add(op.H)
			h.Add(uint64(op.N))
		}
		cl := []string{}
		if st.saturated {
			cl = append(cl, "sketch:counter-saturated")
		}
		if st.resets > 0 {
			cl = append(cl, "sketch:reset")
		}
		if st.clears > 0 {
			cl = append(cl, "sketch:clear")
		}
		if c.NumCounters&(c.NumCounters-1) != 0 {
			cl = append(cl, "sketch:NumCounters-not-power-of-two")
		}
		ev.Case(st.resetAfterSat, h.Sum(), cl...)
		ev.Sample(st.resetAfterSat, func() any {
			return map[string]any{"num_counters": c.NumCounters, "ops": c.Ops}
		})
	})
}

func TestVf_C18_LFU(t *testing.T) {
	ev := vfNewEvidence(t, "C18")
	rapid.Check(t, func(t *rapid.T) {
		c := vfGenLFUCase(t)
		st, sig, msg := vfRunLFUCase(c)
		if sig != "" {
			cc := *c
			cc.Ops = cc.Ops[:st.executed]
			t.Fatalf("%s", vfFail("C18", "lfu", sig, &cc, "%s", msg))
		}
		h := vfNewHasher()
		h.Add(uint64(c.NumCounters))
		for _, op := range c.Ops {
			h.Add(uint64(len(op.Kind)))
			h.Add(op.H)
			h.Add(uint64(op.N))
		}
		cl := []string{}
		if st.saturated {
			cl = append(cl, "lfu:estimate-reached-16")
		}
		if st.resets > 0 {
			cl = append(cl, "lfu:aging-reset")
		}
		ev.Case(st.resetAfterSat, h.Sum(), cl...)
		ev.Sample(st.resetAfterSat, func() any {
			return map[string]any{"num_counters": c.NumCounters, "tinyLFU_ops": c.Ops}
		})
	})
}

// Exhaustive: every byte value x both halves for cmRow.get / increment / reset / clear.
func TestVf_C18_Enum(t *testing.T) {
	ev := vfNewEvidence(t, "C18")
	ev.SetExhaustive(true)
	for b := 0; b < 256; b++ {
		lo, hi := uint8(b&0x0f), uint8(b>>4)
		for half := uint64(0); half < 2; half++ {
			fail := func(sig, format string, args ...any) {
				t.Fatalf("%s", vfFail("C18", "enum", sig, map[string]any{"byte": b, "half": half}, format, args...))
			}
			r := cmRow{byte(b), 0xA5}
			want := lo
			if half == 1 {
				want = hi
			}
			if got := r.get(half); got != want {
				fail("C18/enum/get", "byte %#x half %d: get=%d want %d", b, half, got, want)
			}
			r.increment(half)
			nlo, nhi := lo, hi
			if half == 0 && lo < 15 {
				nlo++
			}
			if half == 1 && hi < 15 {
				nhi++
			}
			if r.get(0) != nlo || r.get(1) != nhi || r[1] != 0xA5 {
				fail("C18/enum/increment", "byte %#x half %d: after increment halves (%d,%d) next byte %#x, want (%d,%d) 0xa5", b, half, r.get(0), r.get(1), r[1], nlo, nhi)
			}
			r2 := cmRow{byte(b), byte(b)}
			r2.reset()
			if r2.get(0) != lo>>1 || r2.get(1) != hi>>1 || r2.get(2) != lo>>1 || r2.get(3) != hi>>1 {
				fail("C18/enum/reset", "byte %#x: after reset halves (%d,%d), want (%d,%d)", b, r2.get(0), r2.get(1), lo>>1, hi>>1)
			}
			r2 = cmRow{byte(b), byte(b)}
			r2.clear()
			if r2[0] != 0 || r2[1] != 0 {
				fail("C18/enum/clear", "byte %#x: clear left %#x %#x", b, r2[0], r2[1])
			}
			ev.Case(true, vfHash("enum", b, half), "enum:byte-x-half")
		}
	}
	// "sized to the next power of two": the rounding itself, for every exponent the int64 argument allows and the values
	// around each power of two; the table itself up to 2^22 counters per row
	for e := uint(1); e <= 62; e++ {
		for d := int64(-3); d <= 3; d++ {
			x := int64(1)<<e + d
			if x < 1 || (e == 62 && d > 0) {
				continue
			}
			p2 := int64(1)
			for p2 < x {
				p2 <<= 1
			}
			if got := next2Power(x); got != p2 {
				t.Fatalf("%s", vfFail("C18", "enum", "C18/enum/next-power-of-two", map[string]any{"x": x}, "next2Power(%d)=%d, the next power of two is %d", x, got, p2))
			}
			if e <= 22 && x >= 2 {
				sk := newCmSketch(x)
				for i := range sk.rows {
					if int64(len(sk.rows[i]))*2 != p2 || sk.mask != uint64(p2-1) {
						t.Fatalf("%s", vfFail("C18", "enum", "C18/enum/table-size", map[string]any{"num_counters": x}, "NumCounters=%d: row %d holds %d counters, mask %#x; the next power of two is %d", x, i, len(sk.rows[i])*2, sk.mask, p2))
					}
				}
			}
			ev.Case(true, vfHash("enum-p2", x), "enum:next-power-of-two")
		}
	}
	ev.Sample(true, func() any {
		return "all 256 byte values x both halves: get, increment, reset, clear; next2Power(2^e+d) for e=1..62, d=-3..3; table size for e<=22"
	})
}

func TestVfReplay_C18(t *testing.T) {
	var raw struct {
		NumCounters int64        `json:"num_counters"`
		Seeds       *[4]uint64   `json:"seeds"`
		Ops         []vfSketchOp `json:"ops"`
	}
	if !vfLoadReplay(t, &raw) {
		return
	}
	if raw.Seeds != nil {
		c := &vfSketchCase{NumCounters: raw.NumCounters, Seeds: *raw.Seeds, Ops: raw.Ops}
		if _, sig, msg := vfRunSketchCase(c); sig != "" {
			t.Fatalf("%s", vfFail("C18", "replay", sig, c, "%s", msg))
		}
		return
	}
	c := &vfLFUCase{NumCounters: raw.NumCounters, Ops: raw.Ops}
	if _, sig, msg := vfRunLFUCase(c); sig != "" {
		t.Fatalf("%s", vfFail("C18", "replay", sig, c, "%s", msg))
	}
}
