//go:build verif

package ristretto

// E2 "cacheconc": concurrent client programs inside a synctest bubble (real
// parallelism, virtual time), complete history recording, history oracles for
// C01 (provenance), C02 (staleness), C04 (exactly-once release), C07 (expiry),
// C08 (no panic / deadlock; the race detector is the third oracle) and the
// quiescent end-state laws (C03, C13, C17).

import (
	"encoding/json"
	"fmt"
	"os"
	"runtime"
	"sort"
	"strings"
	"sync"
	"sync/atomic"
	"testing"
	"testing/synctest"
	"time"

	"pgregory.net/rapid"
)

type vfCOp struct {
	Kind string `json:"kind"` // get set del getttl iter wait clear umc maxcost remaining metrics yield sleep
	Key  int    `json:"key,omitempty"`
	Cost int64  `json:"cost,omitempty"`
	TTL  int64  `json:"ttl_ns,omitempty"`
	N    int    `json:"n,omitempty"`
}

type vfConcCase struct {
	Profile        string    `json:"profile"`
	KeyType        string    `json:"key_type"`
	HashMode       string    `json:"hash_mode"` // default | collide1 | collide2 | collide3 | distinct
	Keys           int       `json:"keys"`
	MaxCost        int64     `json:"max_cost"`
	NumCounters    int64     `json:"num_counters"`
	BufferItems    int64     `json:"buffer_items"`
	SetBufSize     int       `json:"set_buf_size"`
	Metrics        bool      `json:"metrics"`
	TickerSecs     int64     `json:"ttl_ticker_secs"`
	Procs          int       `json:"gomaxprocs"`
	CostYield      int       `json:"cost_cb_yields"`   // Config.Cost yields n times
	CostSleepUs    int       `json:"cost_cb_sleep_us"` // ... or sleeps (virtual)
	EvictYield     int       `json:"evict_cb_yields"`
	ExitYield      int       `json:"exit_cb_yields"`
	ShouldUpd      bool      `json:"should_update_fn"`
	ShouldUpdYield int       `json:"should_update_yields"`
	Progs          [][]vfCOp `json:"programs"`
}

type vfCRec struct {
	G    int       `json:"g"`
	Kind string    `json:"kind"`
	Key  int       `json:"key"`
	Tok  uint64    `json:"tok,omitempty"`
	OK   bool      `json:"ok"`
	Val  uint64    `json:"val,omitempty"`
	Vals []uint64  `json:"vals,omitempty"`
	Inv  uint64    `json:"inv"`
	Res  uint64    `json:"res"`
	TInv time.Time `json:"-"`
	TTL  int64     `json:"ttl_ns,omitempty"`
	Dur  int64     `json:"dur,omitempty"`
}

type vfCEvent struct {
	Kind  int    `json:"kind"` // vfCBEvict/Reject/Exit
	Tok   uint64 `json:"tok"`
	Stamp uint64 `json:"stamp"`
}

type vfConcHist struct {
	Recs       []vfCRec   `json:"ops"`
	Events     []vfCEvent `json:"callbacks"`
	Deadlock   string     `json:"deadlock,omitempty"`
	Panic      string     `json:"panic,omitempty"`
	EndState   []*vfViol  `json:"-"`
	CloseStamp uint64     `json:"close_stamp"`
	tokKey     map[uint64]int
}

func vfTokOf(g, idx int) uint64 { return uint64(g)*1000000 + uint64(idx) + 1 }

func vfConcHash(mode string, idx int) (uint64, uint64) {
	switch mode {
	case "collide1":
		return 7, uint64(idx) + 1
	case "collide2":
		return uint64(7 + idx%2), uint64(idx) + 1
	case "collide3":
		return uint64(7 + idx%3), uint64(idx) + 1
	}
	return uint64(1000 + idx), uint64(idx) + 1 // distinct
}

// vfConcExec runs the programs against a Cache[K, uint64]. Must be called inside a bubble.
func vfConcExec[K Key](c *vfConcCase, mk func(i int) K, idxOf func(K) int) *vfConcHist {
	h := &vfConcHist{tokKey: map[uint64]int{}}
	oldBuf, oldBucket := setBufSize, bucketDurationSecs
	setBufSize, bucketDurationSecs = c.SetBufSize, 1
	defer func() { setBufSize, bucketDurationSecs = oldBuf, oldBucket }()
	if c.Procs > 0 {
		defer runtime.GOMAXPROCS(runtime.GOMAXPROCS(c.Procs))
	}
	var clock atomic.Uint64
	var evMu sync.Mutex
	logEv := func(kind int, tok uint64) {
		st := clock.Add(1)
		evMu.Lock()
		h.Events = append(h.Events, vfCEvent{kind, tok, st})
		evMu.Unlock()
	}
	conf := &Config[K, uint64]{
		NumCounters: c.NumCounters, MaxCost: c.MaxCost, BufferItems: c.BufferItems, Metrics: c.Metrics,
		IgnoreInternalCost: true, TtlTickerDurationInSec: c.TickerSecs,
		OnEvict: func(it *Item[uint64]) {
			logEv(vfCBEvict, it.Value)
			for i := 0; i < c.EvictYield; i++ {
				runtime.Gosched()
			}
		},
		OnReject: func(it *Item[uint64]) { logEv(vfCBReject, it.Value) },
		OnExit: func(v uint64) {
			logEv(vfCBExit, v)
			for i := 0; i < c.ExitYield; i++ {
				runtime.Gosched() // widens the window between "reported as gone" and whatever the caller does next
			}
		},
	}
	if c.CostYield > 0 || c.CostSleepUs > 0 {
		conf.Cost = func(v uint64) int64 {
			for i := 0; i < c.CostYield; i++ {
				runtime.Gosched()
			}
			if c.CostSleepUs > 0 {
				time.Sleep(time.Duration(c.CostSleepUs) * time.Microsecond)
			}
			return 1 + int64(v%3)
		}
	}
	if c.ShouldUpd || c.ShouldUpdYield > 0 {
		conf.ShouldUpdate = func(cur, prev uint64) bool {
			for i := 0; i < c.ShouldUpdYield; i++ {
				runtime.Gosched() // a slow user predicate: widens whatever window it is evaluated in
			}
			if c.ShouldUpd {
				return vfShouldUpdate(cur, prev)
			}
			return true
		}
	}
	if c.HashMode != "default" {
		conf.KeyToHash = func(k K) (uint64, uint64) { return vfConcHash(c.HashMode, idxOf(k)) }
	}
	t0 := time.Now()
	period := time.Duration(c.TickerSecs) * time.Second / 2
	cache, err := NewCache(conf)
	if err != nil {
		panic(err)
	}
	closed := false
	defer func() {
		if !closed {
			func() {
				defer func() { _ = recover() }()
				cache.Close()
			}()
		}
	}()
	recs := make([][]vfCRec, len(c.Progs))
	panics := make([]string, len(c.Progs))
	cur := make([]atomic.Int64, len(c.Progs))
	var sleeps time.Duration
	for g := range c.Progs {
		for i, op := range c.Progs[g] {
			if op.Kind == "set" {
				h.tokKey[vfTokOf(g, i)] = op.Key
			}
			if op.Kind == "sleep" {
				sleeps += time.Duration(op.N) * time.Millisecond
			}
			if op.Kind == "ticksync" {
				sleeps += 2 * time.Second
			}
		}
	}
	var wg sync.WaitGroup
	start := make(chan struct{})
	for g := range c.Progs {
		wg.Add(1)
		go func(g int) {
			defer wg.Done()
			defer func() {
				if p := recover(); p != nil {
					buf := make([]byte, 4096)
					panics[g] = fmt.Sprintf("goroutine %d op %d: %v\n%s", g, cur[g].Load(), p, buf[:runtime.Stack(buf, false)])
				}
			}()
			<-start
			for i, op := range c.Progs[g] {
				cur[g].Store(int64(i))
				r := vfCRec{G: g, Kind: op.Kind, Key: op.Key, TInv: time.Now()}
				k := mk(op.Key)
				r.Inv = clock.Add(1)
				switch op.Kind {
				case "get":
					r.Val, r.OK = cache.Get(k)
				case "set":
					r.Tok = vfTokOf(g, i)
					r.TTL = op.TTL
					r.OK = cache.SetWithTTL(k, r.Tok, op.Cost, time.Duration(op.TTL))
				case "del":
					cache.Del(k)
				case "getttl":
					var d time.Duration
					d, r.OK = cache.GetTTL(k)
					r.Dur = int64(d)
				case "iter":
					n := 0
					cache.IterValues(func(v uint64) bool {
						r.Vals = append(r.Vals, v)
						n++
						return op.N > 0 && n >= op.N
					})
				case "wait":
					cache.Wait()
				case "clear":
					cache.Clear()
				case "umc":
					cache.UpdateMaxCost(c.MaxCost + op.Cost)
				case "umcstorm":
					// C08 only: the capacity is toggled between a tiny and the configured value while others write
					// (op.TTL is the dwell: how many times the goroutine yields after each change, so that a value can
					// outlast a whole admission decision of the applier instead of flipping several times inside it)
					for j := 0; j < op.N; j++ {
						cache.UpdateMaxCost(1 + int64(j%2)*(c.MaxCost+op.Cost))
						for d := int64(0); d < op.TTL; d++ {
							runtime.Gosched()
						}
						if j%8 == 7 {
							runtime.Gosched()
						}
					}
					cache.UpdateMaxCost(c.MaxCost)
				case "maxcost":
					r.Val = uint64(cache.MaxCost())
				case "remaining":
					r.Val = uint64(cache.RemainingCost())
				case "metrics":
					if m := cache.Metrics; m != nil {
						r.Val = m.Hits() + m.Misses() + m.KeysAdded() + m.SetsDropped()
						_ = m.String()
						_ = m.Ratio()
						_ = m.LifeExpectancySeconds()
					}
				case "yield":
					for j := 0; j < op.N; j++ {
						runtime.Gosched()
					}
				case "sleep":
					time.Sleep(time.Duration(op.N) * time.Millisecond)
				case "ticksync":
					// wake up at the very instant of the next expiry tick: what follows races with the sweep
					time.Sleep(period - time.Since(t0)%period)
				}
				r.Res = clock.Add(1)
				recs[g] = append(recs[g], r)
			}
			cur[g].Store(-1)
		}(g)
	}
	close(start)
	done := make(chan struct{})
	go func() { wg.Wait(); close(done) }()
	budget := 24 * time.Hour
	if 10*sleeps > budget {
		budget = 10 * sleeps
	}
	wd := time.NewTimer(budget)
	select {
	case <-done:
		wd.Stop()
	case <-wd.C:
		stuck := ""
		for g := range cur {
			if i := cur[g].Load(); i >= 0 {
				stuck += fmt.Sprintf("goroutine %d in op %d (%s); ", g, i, c.Progs[g][i].Kind)
			}
		}
		h.Deadlock = "clients still blocked after " + budget.String() + " of virtual time: " + stuck
		if c.Profile == "C08" {
			// the bubble may be unable to end with parked goroutines: report from inside
			vfFail("C08", "cacheconc", "C08/deadlock", map[string]any{"case": c}, "%s", h.Deadlock)
		}
	}
	for g := range recs {
		h.Recs = append(h.Recs, recs[g]...)
		if panics[g] != "" {
			h.Panic = panics[g]
		}
	}
	if h.Deadlock != "" || h.Panic != "" {
		return h
	}
	// quiescent end state
	cache.Wait()
	synctest.Wait()
	if c.HashMode == "default" || c.HashMode == "distinct" {
		h.EndState = vfConcEndState(cache, c, h)
	}
	cache.Close()
	closed = true
	h.CloseStamp = clock.Add(1)
	return h
}

// vfConcEndState: the laws that hold whenever writes have drained (no colliding keys).
func vfConcEndState[K Key](cache *Cache[K, uint64], c *vfConcCase, h *vfConcHist) (vs []*vfViol) {
	add := func(v *vfViol) { vs = append(vs, v) }
	p := cache.cachePolicy
	p.Lock()
	pk := map[uint64]int64{}
	var sum int64
	for k, cst := range p.evict.keyCosts {
		pk[k] = cst
		sum += cst
	}
	used := p.evict.used
	p.Unlock()
	mk := map[uint64]uint64{}
	sm := cache.storedItems.(*shardedMap[uint64])
	for _, sh := range sm.shards {
		sh.RLock()
		for k, it := range sh.data {
			mk[k] = it.value
		}
		sh.RUnlock()
	}
	if rc := cache.RemainingCost(); rc != cache.MaxCost()-sum || used != sum {
		add(vfV("C03", "remaining-cost-identity", "quiescent: RemainingCost()=%d MaxCost()=%d sum of accounted costs %d used %d", rc, cache.MaxCost(), sum, used))
	}
	for k := range mk {
		if _, ok := pk[k]; !ok {
			add(vfV("C13", "stored-but-not-accounted", "quiescent: key hash %d held in the map (value %d) but not charged", k, mk[k]))
		}
	}
	for k := range pk {
		if _, ok := mk[k]; !ok {
			add(vfV("C13", "accounted-but-not-stored", "quiescent: key hash %d charged (cost %d) but not in the map", k, pk[k]))
		}
	}
	// IterValues: each unexpired stored value exactly once
	seen := map[uint64]int{}
	cache.IterValues(func(v uint64) bool { seen[v]++; return false })
	for v, n := range seen {
		if n != 1 {
			add(vfV("C13", "iter-duplicate", "quiescent: IterValues visited value %d %d times", v, n))
		}
	}
	stored := map[uint64]bool{}
	for _, v := range mk {
		stored[v] = true
	}
	for v := range seen {
		if !stored[v] {
			add(vfV("C13", "iter-nonresident", "quiescent: IterValues visited %d which is not in the map", v))
		}
	}
	if m := cache.Metrics; m != nil && c.Metrics {
		clears := false
		gets := uint64(0)
		drops := uint64(0)
		for _, r := range h.Recs {
			switch {
			case r.Kind == "clear":
				clears = true
			case r.Kind == "get":
				gets++
			case r.Kind == "set" && !r.OK && r.TTL >= 0:
				drops++
			}
		}
		if d := m.KeysAdded() - m.KeysEvicted(); d != uint64(len(mk)) {
			add(vfV("C17", "keys-added-minus-evicted", "quiescent: KeysAdded %d - KeysEvicted %d != %d resident keys (accounting charges %d)", m.KeysAdded(), m.KeysEvicted(), len(mk), len(pk)))
		}
		if d := m.CostAdded() - m.CostEvicted(); d != uint64(cache.MaxCost()-cache.RemainingCost()) {
			add(vfV("C17", "cost-added-minus-evicted", "quiescent: CostAdded-CostEvicted=%d, MaxCost-RemainingCost=%d", d, cache.MaxCost()-cache.RemainingCost()))
		}
		if g := m.GetsKept() + m.GetsDropped(); g > gets {
			add(vfV("C17", "gets-kept-plus-dropped", "quiescent: GetsKept+GetsDropped=%d exceeds %d Gets", g, gets))
		}
		if !clears {
			if hm := m.Hits() + m.Misses(); hm != gets {
				add(vfV("C17", "hits-plus-misses", "quiescent: Hits+Misses=%d, %d Get calls", hm, gets))
			}
			if m.SetsDropped() != drops {
				add(vfV("C17", "sets-dropped", "quiescent: SetsDropped=%d, %d Sets returned false", m.SetsDropped(), drops))
			}
		}
	}
	return
}

type vfConcStats struct {
	hits, collHits, racedHits, staleChecks, drops, rejects, evicts, clears, overlaps3 int
	exitedServed                                                                      int
	exitByCallAcrossClear                                                             int
	nearExpiry                                                                        int
}

// vfConcOracles evaluates the history oracles.
func vfConcOracles(c *vfConcCase, h *vfConcHist) (vs []*vfViol, st vfConcStats) {
	add := func(v *vfViol) { vs = append(vs, v) }
	if h.Panic != "" {
		add(vfV("C08", "panic", "%s", h.Panic))
		return
	}
	if h.Deadlock != "" {
		add(vfV("C08", "deadlock", "%s", h.Deadlock))
		return
	}
	setRec := map[uint64]*vfCRec{}
	for i := range h.Recs {
		r := &h.Recs[i]
		if r.Kind == "set" {
			setRec[r.Tok] = r
		}
		if r.Kind == "clear" {
			st.clears++
		}
	}
	exitStamp := map[uint64]uint64{}
	exits, evicts, rejects := map[uint64]int{}, map[uint64]int{}, map[uint64]int{}
	evictStamp := map[uint64]uint64{}
	for _, e := range h.Events {
		if e.Tok == 0 {
			continue
		}
		switch e.Kind {
		case vfCBExit:
			exits[e.Tok]++
			if _, ok := exitStamp[e.Tok]; !ok {
				exitStamp[e.Tok] = e.Stamp
			}
		case vfCBEvict:
			evicts[e.Tok]++
			evictStamp[e.Tok] = e.Stamp
			st.evicts++
		case vfCBReject:
			rejects[e.Tok]++
			evictStamp[e.Tok] = e.Stamp
			st.rejects++
		}
	}
	primary := func(idx int) uint64 { p, _ := vfConcHash(c.HashMode, idx); return p }
	writtenKeys := map[int]bool{}
	for _, r := range setRec {
		writtenKeys[r.Key] = true
	}
	collides := func(idx int) bool {
		if c.HashMode == "default" || c.HashMode == "distinct" {
			return false
		}
		for o := range writtenKeys {
			if o != idx && primary(o) == primary(idx) {
				return true
			}
		}
		return false
	}
	checkServed := func(what string, key int, v uint64, inv, res uint64, tInv time.Time, exactKey bool) {
		sr := setRec[v]
		if sr == nil {
			add(vfV("C01", "value-nobody-stored", "%s(key %d) returned %d which no Set supplied", what, key, v))
			return
		}
		if exactKey && sr.Key != key {
			cls := "value-of-other-key"
			if collides(key) {
				cls = "value-of-colliding-key"
			}
			add(vfV("C01", cls, "%s(key %d) returned %d which was set under key %d", what, key, v, sr.Key))
			return
		}
		if sr.Inv > res {
			add(vfV("C01", "value-from-the-future", "%s(key %d) returned %d before its Set began", what, key, v))
		}
		if sr.TTL < 0 {
			add(vfV("C07", "negative-ttl-stored", "%s(key %d) returned %d which was written with a negative ttl", what, key, v))
		}
		if es, ok := exitStamp[v]; ok {
			st.staleChecks++
			if inv > es {
				add(vfV("C02", "served-after-exit", "%s(key %d) started at stamp %d and returned %d, which was passed to OnExit at stamp %d", what, key, inv, v, es))
			} else {
				st.exitedServed++
			}
		}
		if sr.TTL > 0 {
			exp := sr.TInv.Add(time.Duration(sr.TTL))
			if tInv.After(exp) {
				add(vfV("C07", "served-after-expiry", "%s(key %d) started at %v and returned %d which expired at %v", what, key, tInv, v, exp))
			}
			if d := tInv.Sub(exp); d > -time.Millisecond && d <= 0 {
				st.nearExpiry++
			}
		}
	}
	for i := range h.Recs {
		r := &h.Recs[i]
		switch r.Kind {
		case "get":
			if r.OK {
				st.hits++
				if collides(r.Key) {
					st.collHits++
				}
				checkServed("Get", r.Key, r.Val, r.Inv, r.Res, r.TInv, true)
			}
		case "iter":
			dup := map[uint64]bool{}
			for _, v := range r.Vals {
				if dup[v] {
					add(vfV("C13", "iter-duplicate", "IterValues visited %d twice in one call", v))
				}
				dup[v] = true
				checkServed("IterValues", -1, v, r.Inv, r.Res, r.TInv, false)
			}
		case "set":
			if r.TTL < 0 && r.OK {
				add(vfV("C07", "negative-ttl-accepted", "SetWithTTL with ttl %d returned true", r.TTL))
			}
		}
	}
	// hits while another goroutine had a write to the same key in flight
	type span struct{ inv, res uint64 }
	writes := map[int][]span{}
	for _, r := range h.Recs {
		if r.Kind == "set" || r.Kind == "del" {
			writes[r.Key] = append(writes[r.Key], span{r.Inv, r.Res})
		}
	}
	for _, r := range h.Recs {
		if r.Kind == "get" && r.OK {
			for _, w := range writes[r.Key] {
				if w.inv < r.Res && r.Inv < w.res {
					st.racedHits++
					break
				}
			}
		}
	}
	// C04: exactly once
	if c.HashMode == "default" || c.HashMode == "distinct" {
		toks := make([]uint64, 0, len(setRec))
		for t := range setRec {
			toks = append(toks, t)
		}
		sort.Slice(toks, func(i, j int) bool { return toks[i] < toks[j] })
		var clearsR []*vfCRec
		for i := range h.Recs {
			if h.Recs[i].Kind == "clear" {
				clearsR = append(clearsR, &h.Recs[i])
			}
		}
		for _, t := range toks {
			sr := setRec[t]
			if !sr.OK {
				if sr.TTL >= 0 {
					st.drops++
				}
				if exits[t]+evicts[t]+rejects[t] > 0 {
					add(vfV("C04", "callback-for-refused-set", "value %d: Set returned false but callbacks fired (exit %d evict %d reject %d)", t, exits[t], evicts[t], rejects[t]))
				}
				continue
			}
			if exits[t] != 1 {
				cls := "never-released"
				if exits[t] > 1 {
					cls = "double-exit"
				}
				add(vfV("C04", cls, "value %d (key %d): Set returned true, OnExit fired %d times by the time Close returned (OnEvict %d, OnReject %d)", t, sr.Key, exits[t], evicts[t], rejects[t]))
				continue
			}
			if evicts[t] > 1 || rejects[t] > 1 {
				add(vfV("C04", "double-evict-or-reject", "value %d: OnEvict x%d OnReject x%d", t, evicts[t], rejects[t]))
			}
			if (evicts[t] > 0 || rejects[t] > 0) && evictStamp[t] > exitStamp[t] {
				add(vfV("C04", "evict-reject-not-followed-by-exit", "value %d: OnEvict/OnReject at stamp %d after its OnExit at %d", t, evictStamp[t], exitStamp[t]))
			}
			for _, cr := range clearsR {
				if sr.Res < cr.Inv && exitStamp[t] > cr.Res {
					// A Del or an overwriting Set detaches the value under the shard lock and hands it to OnExit itself
					// ("single transfer of ownership"). If such a call on the same key was in flight when OnExit ran,
					// the value had left the cache's hands before or while Clear ran, and it is that call, not Clear,
					// which delivers it: Clear cannot wait for calls in flight. (Seen once on the unchanged tree in
					// some 10^5 cases - DESIGN.md 9.2.)
					byCall := false
					for i := range h.Recs {
						r := &h.Recs[i]
						if (r.Kind == "del" || (r.Kind == "set" && r.OK)) && r.Key == sr.Key && r.Inv < exitStamp[t] && exitStamp[t] < r.Res {
							byCall = true
							break
						}
					}
					if byCall {
						st.exitByCallAcrossClear++
						break
					}
					add(vfV("C04", "not-released-by-clear", "value %d (key %d): Set returned true (stamp %d) before Clear was called (%d..%d) but OnExit came only at %d", t, sr.Key, sr.Res, cr.Inv, cr.Res, exitStamp[t]))
					break
				}
			}
		}
	}
	// C05 on owned keys: keys written by exactly one goroutine
	writers := map[int]map[int]bool{}
	for _, r := range h.Recs {
		if r.Kind == "set" || r.Kind == "del" || r.Kind == "clear" {
			if writers[r.Key] == nil {
				writers[r.Key] = map[int]bool{}
			}
			writers[r.Key][r.G] = true
		}
	}
	if st.clears == 0 && (c.HashMode == "default" || c.HashMode == "distinct" || c.Profile == "C05") {
		byG := map[int][]*vfCRec{}
		for i := range h.Recs {
			byG[h.Recs[i].G] = append(byG[h.Recs[i].G], &h.Recs[i])
		}
		for g, rs := range byG {
			// per owned key: after Del ... Wait, every Get by the owner misses until its next Set
			state := map[int]int{} // 0 none, 1 del done, 2 del+wait done
			for _, r := range rs {
				owned := len(writers[r.Key]) == 1 && writers[r.Key][g]
				switch r.Kind {
				case "set":
					state[r.Key] = 0
				case "del":
					if owned {
						state[r.Key] = 1
					}
				case "wait":
					for k, s := range state {
						if s == 1 {
							state[k] = 2
						}
					}
				case "get":
					if owned && state[r.Key] == 2 && r.OK {
						add(vfV("C05", "hit-after-del-and-wait", "goroutine %d owns key %d: Del, then Wait, then Get returned %d", g, r.Key, r.Val))
					}
				}
			}
		}
	}
	// C08 non-triviality: >= 3 distinct call types overlapping in time on one key (or with a Clear in flight)
	type ev struct {
		inv, res uint64
		kind     string
	}
	byKey := map[int][]ev{}
	for _, r := range h.Recs {
		switch r.Kind {
		case "get", "set", "del", "getttl":
			byKey[r.Key] = append(byKey[r.Key], ev{r.Inv, r.Res, r.Kind})
		}
	}
	for _, es := range byKey {
		for i := range es {
			kinds := map[string]bool{es[i].kind: true}
			for j := range es {
				if es[j].inv < es[i].res && es[i].inv < es[j].res {
					kinds[es[j].kind] = true
				}
			}
			if len(kinds) >= 3 {
				st.overlaps3++
				break
			}
		}
	}
	vs = append(vs, h.EndState...)
	return
}

// vfTextKeys: the key universe of the string / []byte key types. The first entries are deliberately awkward:
// empty, NUL bytes, the same small number encoded at several widths, shared prefixes and suffixes.
var vfTextKeys = func() []string {
	ks := []string{"", "\x00", "\x00\x00", "\x05", "\x05\x00", "\x05\x00\x00\x00", "\x05\x00\x00\x00\x00\x00\x00\x00",
		"a", "aa", "aaa", "aaaaaaaa", "aaaaaaaaa", "ab", "ba", "\xff", "\xff\xff\xff\xff\xff\xff\xff\xff"}
	for i := len(ks); i < 64; i++ {
		ks = append(ks, fmt.Sprintf("key-%d", i))
	}
	return ks
}()

var vfTextKeyIdx = func() map[string]int {
	m := map[string]int{}
	for i, k := range vfTextKeys {
		m[k] = i
	}
	return m
}()

// named key types exercise the reflection path of the default KeyToHash
type vfNamedStr string
type vfNamedBytes []byte
type vfNamedU64 uint64
type vfNamedInt int

func vfConcRunTyped(c *vfConcCase) *vfConcHist {
	switch c.KeyType {
	case "named-string":
		return vfConcExec(c, func(i int) vfNamedStr { return vfNamedStr(vfTextKeys[i]) }, func(k vfNamedStr) int { return vfTextKeyIdx[string(k)] })
	case "named-bytes":
		return vfConcExec(c, func(i int) vfNamedBytes { return vfNamedBytes(vfTextKeys[i]) }, func(k vfNamedBytes) int { return vfTextKeyIdx[string(k)] })
	case "named-uint64":
		return vfConcExec(c, func(i int) vfNamedU64 { return vfNamedU64(i + 1) }, func(k vfNamedU64) int { return int(k) - 1 })
	case "named-int":
		return vfConcExec(c, func(i int) vfNamedInt { return vfNamedInt(-(i + 1)) }, func(k vfNamedInt) int { return int(-k) - 1 })
	case "string":
		return vfConcExec(c, func(i int) string { return vfTextKeys[i] }, func(k string) int { return vfTextKeyIdx[k] })
	case "bytes":
		return vfConcExec(c, func(i int) []byte { return []byte(vfTextKeys[i]) }, func(k []byte) int { return vfTextKeyIdx[string(k)] })
	case "int":
		// pairs of keys that agree in their low 32 bits (ids that have grown past 2^32 are ordinary keys)
		return vfConcExec(c, func(i int) int { return i/2 + 1 + (i%2)<<32 }, func(k int) int { return 2*((k&0xffffffff)-1) + k>>32 })
	case "int32":
		return vfConcExec(c, func(i int) int32 { return int32(i + 1) }, func(k int32) int { return int(k) - 1 })
	case "uint32":
		return vfConcExec(c, func(i int) uint32 { return uint32(i + 1) }, func(k uint32) int { return int(k) - 1 })
	case "int64":
		return vfConcExec(c, func(i int) int64 { return -int64(i + 1) }, func(k int64) int { return int(-k) - 1 })
	case "uint":
		return vfConcExec(c, func(i int) uint { return uint(i/2+1) + uint(i%2)<<32 }, func(k uint) int { return 2*(int(k&0xffffffff)-1) + int(k>>32) })
	case "byte":
		return vfConcExec(c, func(i int) byte { return byte(i + 1) }, func(k byte) int { return int(k) - 1 })
	}
	// keys 8.. share their map shard (hash % 256) with keys 0..7; key 0 (hash 0, conflict 0) is an ordinary key
	return vfConcExec(c, func(i int) uint64 { return uint64(i%8 + 256*(i/8)) }, func(k uint64) int { return int(k%256) + 8*int(k/256) })
}

type vfConcProfile struct {
	ticksync int
	id       string
	collide  bool
	allOps   bool
	w        map[string]int
}

var vfConcProfiles = map[string]*vfConcProfile{
	"C01": {id: "C01", ticksync: 4, collide: true, w: map[string]int{"get": 40, "set": 30, "del": 8, "iter": 2, "wait": 2, "clear": 3, "yield": 8, "sleep": 3}},
	"C02": {id: "C02", ticksync: 4, w: map[string]int{"get": 42, "set": 32, "del": 10, "iter": 3, "wait": 2, "clear": 3, "yield": 8, "sleep": 2}},
	"C04": {id: "C04", ticksync: 4, w: map[string]int{"get": 12, "set": 50, "del": 10, "wait": 3, "clear": 4, "yield": 8, "sleep": 3}},
	"C05": {id: "C05", w: map[string]int{"get": 25, "set": 30, "del": 15, "wait": 12, "yield": 8, "sleep": 2}},
	"C07": {id: "C07", ticksync: 4, w: map[string]int{"get": 40, "set": 30, "del": 4, "getttl": 6, "iter": 4, "wait": 2, "yield": 4, "sleep": 10}},
	"C08": {id: "C08", ticksync: 4, allOps: true, w: map[string]int{"get": 22, "set": 22, "del": 8, "getttl": 6, "iter": 4, "wait": 5, "clear": 3, "umc": 3, "umcstorm": 5, "maxcost": 3, "remaining": 4, "metrics": 4, "yield": 8, "sleep": 3}},
	"C03": {id: "C03", w: map[string]int{"get": 20, "set": 50, "del": 10, "wait": 3, "umc": 2, "yield": 8, "sleep": 2}},
	"C13": {id: "C13", ticksync: 4, w: map[string]int{"get": 15, "set": 45, "del": 12, "iter": 4, "wait": 3, "clear": 1, "yield": 8, "sleep": 4}},
	"C17": {id: "C17", w: map[string]int{"get": 30, "set": 40, "del": 8, "wait": 3, "yield": 8, "sleep": 3}},
}

func vfGenConcCase(t *rapid.T, p *vfConcProfile, maxG int) *vfConcCase {
	c := &vfConcCase{Profile: p.id, KeyType: "uint64", HashMode: "default"}
	c.Keys = rapid.IntRange(4, 32).Draw(t, "keys")
	if rapid.Bool().Draw(t, "fewkeys") {
		c.Keys = rapid.IntRange(2, 6).Draw(t, "keys2")
	}
	if p.id == "C05" && rapid.IntRange(0, 2).Draw(t, "c05collide") == 0 {
		// keys that collide on the primary hash; ownership (one writer per key) is what the oracle needs
		c.KeyType = "string"
		c.HashMode = rapid.SampledFrom([]string{"collide1", "collide2", "collide3", "distinct"}).Draw(t, "hashmode")
	}
	if p.id == "C02" && rapid.IntRange(0, 3).Draw(t, "c02collide") == 0 {
		// staleness must also hold between keys that collide on the primary hash (a Del of one must not report the other)
		c.KeyType = "string"
		c.HashMode = rapid.SampledFrom([]string{"collide1", "collide2", "collide3"}).Draw(t, "hashmode")
	}
	if p.id == "C01" {
		c.KeyType = rapid.SampledFrom([]string{"uint64", "int", "int32", "uint32", "int64", "uint", "byte", "string", "string", "string", "bytes", "bytes", "bytes",
			"named-string", "named-bytes", "named-uint64", "named-int"}).Draw(t, "keytype")
		if c.KeyType == "string" || c.KeyType == "bytes" || c.KeyType == "named-string" || c.KeyType == "named-bytes" {
			c.HashMode = rapid.SampledFrom([]string{"default", "collide1", "collide2", "collide3", "collide2", "collide3", "distinct"}).Draw(t, "hashmode")
		}
	}
	c.MaxCost = int64(rapid.IntRange(3, 22).Draw(t, "maxcost"))
	c.NumCounters = int64(rapid.SampledFrom([]int{2, 16, 100, 1024}).Draw(t, "numCounters"))
	c.BufferItems = int64(rapid.SampledFrom([]int{1, 2, 4, 64}).Draw(t, "bufferItems"))
	c.SetBufSize = rapid.SampledFrom([]int{1, 2, 3, 8, 64, 1024}).Draw(t, "setBufSize")
	c.Metrics = rapid.Bool().Draw(t, "metrics") || p.id == "C17"
	c.TickerSecs = int64(rapid.IntRange(1, 3).Draw(t, "ticker"))
	c.Procs = rapid.SampledFrom([]int{1, 2, 4, 8, 16}).Draw(t, "procs")
	switch rapid.IntRange(0, 3).Draw(t, "costcb") {
	case 0:
		c.CostYield = rapid.IntRange(1, 5).Draw(t, "costyield")
	case 1:
		c.CostSleepUs = rapid.SampledFrom([]int{1, 100, 1000}).Draw(t, "costsleep")
	}
	c.EvictYield = rapid.IntRange(0, 3).Draw(t, "evictyield")
	c.ExitYield = rapid.SampledFrom([]int{0, 0, 1, 3, 10}).Draw(t, "exityield")
	c.ShouldUpd = rapid.IntRange(0, 5).Draw(t, "shouldupd") == 0
	c.ShouldUpdYield = rapid.SampledFrom([]int{0, 0, 0, 1, 3, 8}).Draw(t, "shouldupdyield")
	g := rapid.IntRange(2, maxG).Draw(t, "goroutines")
	var kinds []string
	total := 0
	wts := map[string]int{}
	for k, v := range p.w {
		wts[k] = v
	}
	if p.ticksync > 0 {
		wts["ticksync"] = p.ticksync
	}
	for k := range wts {
		kinds = append(kinds, k)
	}
	sort.Strings(kinds)
	for _, k := range kinds {
		total += wts[k]
	}
	owned := rapid.IntRange(0, 2).Draw(t, "ownedkeys") // the first 'owned' goroutines own one key each
	allowClear := rapid.IntRange(0, 9).Draw(t, "allowclear") < 3
	clearsLeft := rapid.IntRange(1, 4).Draw(t, "nclears")
	hot := rapid.IntRange(0, 2).Draw(t, "hotkey") > 0
	for gi := 0; gi < g; gi++ {
		n := rapid.IntRange(10, 120).Draw(t, "proglen")
		var prog []vfCOp
		for i := 0; i < n; i++ {
			w := rapid.IntRange(0, total-1).Draw(t, "op")
			kind := ""
			for _, k := range kinds {
				if w < wts[k] {
					kind = k
					break
				}
				w -= wts[k]
			}
			if kind == "clear" {
				if !allowClear || clearsLeft == 0 {
					kind = "wait"
				} else {
					clearsLeft--
				}
			}
			if p.id == "C05" && gi < owned && 2*gi+1 < c.Keys && rapid.IntRange(0, 11).Draw(t, "delmacro") == 0 {
				// the pattern the property is about, on the goroutine's two private keys (which may collide on the
				// primary hash): an insert still buffered, a Del of the sibling in between, the Del, Wait, Get
				a, b := 2*gi, 2*gi+1
				if rapid.Bool().Draw(t, "swapab") {
					a, b = b, a
				}
				if rapid.Bool().Draw(t, "lagfirst") {
					prog = append(prog, vfCOp{Kind: "set", Key: b, Cost: 0}) // cost 0: the Cost callback may stall the applier
				}
				prog = append(prog, vfCOp{Kind: "set", Key: a, Cost: int64(rapid.IntRange(0, 2).Draw(t, "mcost"))})
				if rapid.Bool().Draw(t, "delsibling") {
					prog = append(prog, vfCOp{Kind: "del", Key: b})
				}
				prog = append(prog, vfCOp{Kind: "del", Key: a}, vfCOp{Kind: "wait"}, vfCOp{Kind: "get", Key: a})
				i += 4
				continue
			}
			if (p.id == "C01" || p.id == "C02" || p.id == "C04" || p.id == "C08") && rapid.IntRange(0, 24).Draw(t, "setburst") == 0 {
				// a burst of writes to two hot keys: with a small write buffer and a slow applier many of them meet a full
				// buffer while other goroutines do the same
				nb := rapid.IntRange(10, 40).Draw(t, "burstlen")
				hk := owned
				if p.id == "C05" {
					hk = 2 * owned
				}
				for b := 0; b < nb; b++ {
					k := hk + b%2
					if k >= c.Keys {
						k = c.Keys - 1
					}
					prog = append(prog, vfCOp{Kind: "set", Key: k, Cost: int64(b % 2)})
				}
				i += nb - 1
				continue
			}
			if p.id == "C01" && strings.HasPrefix(c.HashMode, "collide") && rapid.IntRange(0, 19).Draw(t, "deadslot") == 0 {
				// two keys that share their primary hash: one expires and is not swept yet, the other is deleted (which
				// makes the accounting forget the shared hash) and written again, then both are read
				m := int(c.HashMode[len(c.HashMode)-1] - '0')
				a := rapid.IntRange(0, c.Keys-1).Draw(t, "deadA")
				b := a + m
				if b >= c.Keys {
					b = a - m
				}
				if b >= 0 && b != a {
					ttl := rapid.IntRange(1, 20).Draw(t, "deadttl")
					prog = append(prog, vfCOp{Kind: "set", Key: a, Cost: 1, TTL: int64(ttl) * int64(time.Millisecond)}, vfCOp{Kind: "wait"},
						vfCOp{Kind: "sleep", N: ttl + rapid.IntRange(1, 200).Draw(t, "deadsleep")},
						vfCOp{Kind: "del", Key: b}, vfCOp{Kind: "set", Key: b, Cost: 1}, vfCOp{Kind: "wait"},
						vfCOp{Kind: "get", Key: a}, vfCOp{Kind: "get", Key: b})
					i += 7
					continue
				}
			}
			if p.id == "C08" && rapid.IntRange(0, 29).Draw(t, "expiredel") == 0 {
				// entries that expire, a sleep past their bucket, wake-up exactly at the expiry tick, then their Del
				nk := rapid.IntRange(2, 5).Draw(t, "nexp")
				for b := 0; b < nk; b++ {
					prog = append(prog, vfCOp{Kind: "set", Key: (owned + b) % c.Keys, Cost: 1, TTL: int64(rapid.IntRange(1, 900).Draw(t, "expttl")) * int64(time.Millisecond)})
				}
				prog = append(prog, vfCOp{Kind: "wait"}, vfCOp{Kind: "sleep", N: 1100}, vfCOp{Kind: "ticksync"})
				for b := 0; b < nk; b++ {
					prog = append(prog, vfCOp{Kind: "del", Key: (owned + b) % c.Keys})
				}
				i += 2*nk + 2
				continue
			}
			op := vfCOp{Kind: kind}
			priv := owned
			if p.id == "C05" {
				priv = 2 * owned
			}
			shared := c.Keys - priv
			if shared < 1 {
				shared = 1
			}
			op.Key = priv + rapid.IntRange(0, shared-1).Draw(t, "key")
			if op.Key >= c.Keys {
				op.Key = c.Keys - 1
			}
			if hot && rapid.Bool().Draw(t, "usehot") && priv < c.Keys {
				op.Key = priv
			}
			if gi < owned && rapid.Bool().Draw(t, "ownkey") {
				op.Key = gi
				if p.id == "C05" {
					// two private keys per owning goroutine (they may collide with each other or with other owners' keys)
					op.Key = 2*gi + rapid.IntRange(0, 1).Draw(t, "ownkey2")
					if op.Key >= c.Keys {
						op.Key = gi
					}
				}
			}
			switch kind {
			case "set":
				op.Cost = int64(rapid.IntRange(0, 4).Draw(t, "cost"))
				if rapid.IntRange(0, 20).Draw(t, "bigcost") == 0 {
					op.Cost = c.MaxCost + 1
				}
				switch rapid.IntRange(0, 9).Draw(t, "ttlmode") {
				case 0:
					op.TTL = int64(rapid.IntRange(1, 3000).Draw(t, "ttlms")) * int64(time.Millisecond)
				case 1:
					op.TTL = int64(rapid.IntRange(1, 2000).Draw(t, "ttlus")) * int64(time.Microsecond)
				case 3:
					if p.id == "C07" {
						op.TTL = rapid.SampledFrom([]int64{int64(time.Hour), 1<<63 - 1, 250 * 365 * 24 * int64(time.Hour)}).Draw(t, "longttl")
					}
				case 2:
					if p.id == "C07" {
						op.TTL = -1
					}
				}
				if p.id == "C07" && op.TTL == 0 && rapid.Bool().Draw(t, "morettl") {
					op.TTL = int64(rapid.IntRange(1, 50).Draw(t, "ttlms2")) * int64(time.Millisecond)
				}
			case "iter":
				op.N = rapid.IntRange(0, 3).Draw(t, "stopafter")
			case "umc":
				op.Cost = int64(rapid.IntRange(0, 10).Draw(t, "raise"))
				if p.id == "C08" && rapid.Bool().Draw(t, "lower") {
					op.Cost = -int64(rapid.IntRange(0, int(c.MaxCost)-1).Draw(t, "lowerby")) // C08 does not restrict UpdateMaxCost
				}
			case "umcstorm":
				op.N = rapid.IntRange(50, 2000).Draw(t, "storm")
				op.Cost = int64(rapid.IntRange(0, 5).Draw(t, "raise"))
				op.TTL = rapid.SampledFrom([]int64{0, 0, 1, 2, 5, 20}).Draw(t, "dwell")
				if op.TTL >= 5 {
					op.N = op.N/10 + 20
				}
			case "yield":
				op.N = rapid.IntRange(1, 5).Draw(t, "n")
			case "sleep":
				op.N = rapid.SampledFrom([]int{1, 1, 5, 20, 500, 1000, 2500}).Draw(t, "ms")
			}
			prog = append(prog, op)
		}
		c.Progs = append(c.Progs, prog)
	}
	return c
}

func vfConcNonTrivial(id string, st *vfConcStats) (bool, []string) {
	var cl []string
	flag := func(b bool, n string) bool {
		if b {
			cl = append(cl, "conc:"+n)
		}
		return b
	}
	flag(st.hits > 0, "hit")
	coll := flag(st.collHits > 0, "hit-on-key-sharing-its-primary-hash")
	raced := flag(st.racedHits > 0, "hit-while-a-write-to-the-key-was-in-flight")
	stale := flag(st.staleChecks > 0, "served-value-later-exited")
	drop := flag(st.drops > 0, "buffer-full-drop")
	rej := flag(st.rejects > 0, "rejection")
	ev := flag(st.evicts > 0, "eviction-or-clear-callback")
	clr := flag(st.clears > 0, "clear")
	ov := flag(st.overlaps3 > 0, ">=3-call-types-overlapping-on-a-key")
	ne := flag(st.nearExpiry > 0, "read-within-1ms-before-expiry")
	flag(st.exitByCallAcrossClear > 0, "exit-delivered-by-a-del-or-set-in-flight-across-a-clear")
	switch id {
	case "C01":
		return coll || raced, cl
	case "C02":
		return stale, cl
	case "C04":
		return drop && (rej || ev) && clr, cl
	case "C08":
		return ov || (clr && st.hits > 0), cl
	case "C07":
		return ne, cl
	default:
		return ev && st.hits > 0, cl
	}
}

func vfConcProperty(ev *vfEvidence, profile string, maxG int) func(t *rapid.T) {
	p := vfConcProfiles[profile]
	return func(t *rapid.T) {
		c := vfGenConcCase(t, p, maxG)
		var h *vfConcHist
		vfConcCurrent.Store(c)
		vfConcCaseStart.Store(time.Now().UnixNano())
		rapid.SyncTest(t, func(t *rapid.T) { h = vfConcRunTyped(c) })
		vfConcCaseStart.Store(0)
		vs, st := vfConcOracles(c, h)
		if st.exitByCallAcrossClear > 0 && os.Getenv("VFDBG") != "" {
			b, _ := json.Marshal(map[string]any{"case": c, "history": h})
			fmt.Println("DBG-EXIT-ACROSS-CLEAR", string(b))
		}
		if v, d := vfPick(vs, profile); v != nil {
			t.Fatalf("%s", vfFail(profile, "cacheconc", v.Sig, map[string]any{"case": c, "history": h}, "%s", v.Msg))
		} else if d != "" {
			ev.Excluded("diverged_other=" + d)
			return
		}
		nt, cl := vfConcNonTrivial(profile, &st)
		cl = append(cl, "conc:keytype="+c.KeyType, "conc:hash="+c.HashMode)
		hs := vfNewHasher()
		hs.Add(vfHash(c.KeyType, c.HashMode, c.Keys, c.MaxCost, c.SetBufSize, len(c.Progs)))
		for _, pr := range c.Progs {
			for _, op := range pr {
				hs.Add(vfHash(op.Kind, op.Key, op.Cost, op.TTL, op.N))
			}
		}
		ev.Case(nt, hs.Sum(), cl...)
		ev.Sample(nt, func() any {
			progs := c.Progs
			if len(progs) > 2 {
				progs = progs[:2]
			}
			short := make([][]vfCOp, len(progs))
			for i := range progs {
				short[i] = progs[i]
				if len(short[i]) > 25 {
					short[i] = short[i][:25]
				}
			}
			cc := *c
			cc.Progs = nil
			return map[string]any{"config": cc, "goroutines": len(c.Progs), "first_programs_truncated": short, "ops_recorded": len(h.Recs), "callbacks": len(h.Events)}
		})
	}
}

// vfConcCurrent is the case being executed (for the deadlock monitor).
var vfConcCurrent atomic.Pointer[vfConcCase]
var vfConcCaseStart atomic.Int64

// vfDeadlockMonitor runs OUTSIDE the bubble on the real clock. A goroutine blocked on a mutex is not
// "durably blocked", so a lock-order / recursive-read-lock deadlock stops the bubble's clock and the
// virtual-time watchdog never fires. The verdict here is logical, not a timeout: in a stop-the-world
// goroutine dump no goroutine that executes cache or harness code is running or runnable, and at least one of
// them waits for a mutex - nothing inside the process can ever release it. The real clock only decides
// when to look (after 10 s; a case normally takes milliseconds), and two dumps 3 s apart must agree.
func vfDeadlockMonitor(profile string, stop chan struct{}) {
	stuckOnce := false
	for {
		select {
		case <-stop:
			return
		case <-time.After(3 * time.Second):
		}
		st := vfConcCaseStart.Load()
		if st == 0 || time.Since(time.Unix(0, st)) < 10*time.Second {
			stuckOnce = false
			continue
		}
		buf := make([]byte, 8<<20)
		buf = buf[:runtime.Stack(buf, true)]
		blockedOnMutex, active := 0, 0
		for _, g := range strings.Split(string(buf), "\n\n") {
			if !strings.Contains(g, "ristretto/v2.") || strings.Contains(g, "vfDeadlockMonitor") {
				continue
			}
			head := g
			if i := strings.Index(g, "\n"); i >= 0 {
				head = g[:i]
			}
			switch {
			case strings.Contains(head, "[running") || strings.Contains(head, "[runnable") || strings.Contains(head, "[syscall") || strings.Contains(head, "[GC") || strings.Contains(head, "[IO wait"):
				active++
			case strings.Contains(head, "Mutex"): // sync.Mutex.Lock, sync.RWMutex.Lock, sync.RWMutex.RLock
				blockedOnMutex++
			}
		}
		if active == 0 && blockedOnMutex > 0 {
			if !stuckOnce {
				stuckOnce = true
				continue
			}
			c := vfConcCurrent.Load()
			dump := string(buf)
			if len(dump) > 60000 {
				dump = dump[:60000]
			}
			if profile == "C08" {
				vfFail("C08", "cacheconc", "C08/deadlock-on-mutex", map[string]any{"case": c, "goroutine_dump": dump},
					"%d goroutines wait for a mutex and no goroutine running cache code is runnable (two stop-the-world dumps 3 s apart)", blockedOnMutex)
				os.Exit(1)
			}
			fmt.Printf("\nVF-DIVERGED other=C08 mutex deadlock while checking %s\n", profile)
			os.Exit(3)
		} else {
			stuckOnce = false
		}
	}
}

func vfConcTest(t *testing.T, profile string) {
	stopMon := make(chan struct{})
	go vfDeadlockMonitor(profile, stopMon)
	defer close(stopMon)
	ev := vfNewEvidence(t, profile)
	maxG := 16
	if vfTier() == "thorough" {
		maxG = 64
	}
	rapid.Check(t, vfConcProperty(ev, profile, maxG))
}

func TestVf_Conc_C01(t *testing.T) { vfConcTest(t, "C01") }
func TestVf_Conc_C02(t *testing.T) { vfConcTest(t, "C02") }
func TestVf_Conc_C03(t *testing.T) { vfConcTest(t, "C03") }
func TestVf_Conc_C04(t *testing.T) { vfConcTest(t, "C04") }
func TestVf_Conc_C05(t *testing.T) { vfConcTest(t, "C05") }
func TestVf_Conc_C07(t *testing.T) { vfConcTest(t, "C07") }
func TestVf_Conc_C08(t *testing.T) { vfConcTest(t, "C08") }
func TestVf_Conc_C13(t *testing.T) { vfConcTest(t, "C13") }
func TestVf_Conc_C17(t *testing.T) { vfConcTest(t, "C17") }

// TestVfReplay_Conc re-runs the programs of a saved case; schedules are not reproducible, so the
// programs are executed repeatedly and every resulting history goes through the oracles.
func TestVfReplay_Conc(t *testing.T) {
	var raw struct {
		Case *vfConcCase `json:"case"`
	}
	if !vfLoadReplay(t, &raw) {
		return
	}
	c := raw.Case
	if c == nil {
		t.Skip("not a concurrent case")
	}
	reps := vfEnvInt("VERIF_REPLAY_REPS", 200)
	for i := 0; i < reps; i++ {
		var h *vfConcHist
		synctest.Test(t, func(t *testing.T) { h = vfConcRunTyped(c) })
		vs, _ := vfConcOracles(c, h)
		if v, _ := vfPick(vs, c.Profile); v != nil {
			t.Fatalf("%s", vfFail(c.Profile, "cacheconc", v.Sig, map[string]any{"case": c, "history": h}, "%s", v.Msg))
		}
	}
}

// ---- C01 stress: volume instead of bookkeeping --------------------------------------------------------------
//
// The history engine above stamps every call, which serialises the goroutines a little. Some provenance failures need
// two Sets to overlap within a few nanoseconds; for those this stage trades the history for raw volume: every value
// carries the key it was written under in its upper half, and readers only check that. Real time, no bubble.

type vfStressCase struct {
	Goroutines int      `json:"goroutines"`
	Keys       int      `json:"keys"`
	SetBufSize int      `json:"set_buf_size"`
	MaxCost    int64    `json:"max_cost"`
	Collide    bool     `json:"collide"`
	StallMs    int      `json:"applier_stall_ms"`
	Millis     int      `json:"millis"`
	Seeds      []uint64 `json:"seeds"`
}

func vfRunStress(c *vfStressCase) (ops int64, hits int64, bad string) {
	old := setBufSize
	setBufSize = c.SetBufSize
	defer func() { setBufSize = old }()
	gate := make(chan struct{})
	var gateOnce sync.Once
	conf := &Config[uint64, uint64]{NumCounters: 1024, MaxCost: c.MaxCost, BufferItems: 64, IgnoreInternalCost: true,
		Cost: func(v uint64) int64 {
			<-gate // the applier is held here until the gate opens: the write buffer stays full meanwhile
			return 1
		}}
	if c.Collide {
		conf.KeyToHash = func(k uint64) (uint64, uint64) { return 7 + k%2, k + 1 }
	}
	cache, err := NewCache(conf)
	if err != nil {
		panic(err)
	}
	defer func() {
		gateOnce.Do(func() { close(gate) })
		cache.Close()
	}()
	for k := 0; k < c.Keys; k++ {
		cache.Set(uint64(k+1), uint64(k+1)<<32, 1)
	}
	if c.StallMs == 0 {
		gateOnce.Do(func() { close(gate) })
		cache.Wait()
	} else {
		// make the keys resident first, then stall
		go func() {
			time.Sleep(time.Duration(c.StallMs) * time.Millisecond)
			gateOnce.Do(func() { close(gate) })
		}()
	}
	deadline := time.Now().Add(time.Duration(c.Millis) * time.Millisecond)
	var wg sync.WaitGroup
	var nops, nhits atomic.Int64
	var badMu sync.Mutex
	for g := 0; g < c.Goroutines; g++ {
		wg.Add(1)
		go func(g int) {
			defer wg.Done()
			x := c.Seeds[g%len(c.Seeds)] | 1
			var n, h int64
			ctr := uint64(g) << 24
			for i := 0; ; i++ {
				if i&1023 == 0 && time.Now().After(deadline) {
					break
				}
				x ^= x << 13
				x ^= x >> 7
				x ^= x << 17
				k := uint64(1 + int(x>>8)%c.Keys)
				switch x & 3 {
				case 0, 1:
					ctr++
					cache.Set(k, k<<32|(ctr&0xffffffff), int64(x>>4&1))
				case 2:
					if v, ok := cache.Get(k); ok {
						h++
						if v>>32 != k {
							badMu.Lock()
							if bad == "" {
								bad = fmt.Sprintf("Get(%d) returned a value written under key %d (raw %#x)", k, v>>32, v)
							}
							badMu.Unlock()
							return
						}
					}
				default:
					if x>>40&15 == 0 {
						cache.Del(k)
					} else if v, ok := cache.Get(k); ok && v>>32 != k {
						badMu.Lock()
						if bad == "" {
							bad = fmt.Sprintf("Get(%d) returned a value written under key %d (raw %#x)", k, v>>32, v)
						}
						badMu.Unlock()
						return
					}
				}
				n++
			}
			nops.Add(n)
			nhits.Add(h)
		}(g)
	}
	wg.Wait()
	return nops.Load(), nhits.Load(), bad
}

func TestVf_C01_Stress(t *testing.T) {
	ev := vfNewEvidence(t, "C01")
	rapid.Check(t, func(t *rapid.T) {
		c := &vfStressCase{
			Goroutines: rapid.SampledFrom([]int{4, 8, 16, 16}).Draw(t, "goroutines"),
			Keys:       rapid.SampledFrom([]int{2, 4, 16}).Draw(t, "keys"),
			SetBufSize: rapid.SampledFrom([]int{1, 2, 8, 64}).Draw(t, "setBufSize"),
			MaxCost:    rapid.SampledFrom([]int64{4, 64, 1 << 20}).Draw(t, "maxCost"),
			Collide:    rapid.IntRange(0, 3).Draw(t, "collide") == 0,
			StallMs:    rapid.SampledFrom([]int{0, 50, 150, 250}).Draw(t, "stallMs"),
			Millis:     250,
		}
		for i := 0; i < 4; i++ {
			c.Seeds = append(c.Seeds, rapid.Uint64Range(1, 1<<62).Draw(t, "seed"))
		}
		ops, hits, bad := vfRunStress(c)
		if bad != "" {
			t.Fatalf("%s", vfFail("C01", "stress", "C01/value-of-other-key/stress", c, "%s", bad))
		}
		ev.Class("stress:operations", int(ops))
		ev.Case(hits > 1000 && c.StallMs > 0, vfHash(c.Goroutines, c.Keys, c.SetBufSize, c.MaxCost, c.Collide, c.StallMs, c.Seeds[0]), "stress-case")
		ev.Sample(hits > 1000, func() any { return map[string]any{"stress": c, "operations": ops, "hits_checked": hits} })
	})
}

func TestVfReplay_C01Stress(t *testing.T) {
	var c vfStressCase
	if !vfLoadReplay(t, &c) {
		return
	}
	for i := 0; i < 20; i++ {
		if _, _, bad := vfRunStress(&c); bad != "" {
			t.Fatalf("%s", vfFail("C01", "stress", "C01/value-of-other-key/stress", &c, "%s", bad))
		}
	}
}
