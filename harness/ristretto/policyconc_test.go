//go:build verif

package ristretto

import (
	"fmt"
	"runtime"
	"sort"
	"testing"
	"time"

	"pgregory.net/rapid"
)

// C09 under concurrent access recording. The policy applies batches of recorded accesses (what Get's ring buffer
// delivers through Push) on its own goroutine, and one batch in NumCounters completes a TinyLFU period and halves every
// counter. A decision is taken on one consistent reading of the estimates: either the one before that batch or the one
// after it. The oracle checks every victim and a rejection against both readings, so it is indifferent to where the
// runtime happened to order the batch relative to the Add, and fails only when no single reading justifies a decision.
//
// Noise keys are checked not to touch a tracked key's counters or doorkeeper bits (otherwise the case is discarded and
// counted), so the only way a tracked estimate changes while Add runs is the halving.

type vfPolicyConcCase struct {
	Colds    int    `json:"colds"`
	Hots     int    `json:"hots"`
	HotFreq  int    `json:"hot_freq"`
	InFreq   int    `json:"in_freq"`
	ToReset  int    `json:"increments_to_reset"`
	Batches  int    `json:"batches"`
	DelayUs  int    `json:"delay_us"`
	InCostUp int64  `json:"in_cost_over_colds"`
	Salt     uint64 `json:"salt"`
}

func vfMix(i, salt uint64) uint64 { return (i + 1 + salt) * 0x9E3779B97F4A7C15 }

type vfPolicyConcStats struct {
	resetDuringWindow bool
	victims           int
	hotVictims        int
	added             bool
	collided          bool
}

func vfRunPolicyConc(c *vfPolicyConcCase) (st vfPolicyConcStats, sig, msg string) {
	const numCounters = int64(1 << 18)
	p := newDefaultPolicy[int](numCounters, int64(c.Colds+c.Hots))
	closed := false
	defer func() {
		if !closed {
			p.Close()
		}
	}()
	tracked := make([]uint64, 0, c.Colds+c.Hots+1)
	hot := map[uint64]bool{}
	in := vfMix(2_000_000, c.Salt)
	p.Lock()
	for i := 0; i < c.Colds; i++ {
		k := vfMix(uint64(i), c.Salt)
		p.evict.add(k, 1)
		p.admit.Increment(k)
		tracked = append(tracked, k)
	}
	for i := 0; i < c.Hots; i++ {
		k := vfMix(1_000_000+uint64(i), c.Salt)
		hot[k] = true
		p.evict.add(k, 1)
		for n := 0; n < c.HotFreq; n++ {
			p.admit.Increment(k)
		}
		tracked = append(tracked, k)
	}
	for n := 0; n < c.InFreq; n++ {
		p.admit.Increment(in)
	}
	tracked = append(tracked, in)
	if p.admit.incrs >= p.admit.resetAt-int64(c.ToReset) {
		p.Unlock()
		return st, "HARNESS/setup-crossed-reset", "population alone reaches the reset"
	}
	p.admit.incrs = p.admit.resetAt - int64(c.ToReset)
	before := make(map[uint64]int64, len(tracked))
	beforeFreq := make(map[uint64]int64, len(tracked))
	for _, k := range tracked {
		before[k] = p.admit.Estimate(k)
		beforeFreq[k] = p.admit.freq.Estimate(k)
	}
	p.Unlock()

	type result struct {
		victims []*Item[int]
		added   bool
	}
	started := make(chan struct{})
	done := make(chan result, 1)
	go func() {
		close(started)
		v, a := p.Add(in, int64(c.Colds)+c.InCostUp)
		done <- result{v, a}
	}()
	<-started
	if c.DelayUs > 0 {
		time.Sleep(time.Duration(c.DelayUs) * time.Microsecond)
	}
	for b := 0; b < c.Batches; b++ {
		keys := make([]uint64, 64)
		for j := range keys {
			keys[j] = vfMix(3_000_000+uint64(b*64+j), c.Salt)
		}
		for !p.Push(keys) {
			runtime.Gosched()
		}
	}
	r := <-done
	for len(p.itemsCh) > 0 {
		runtime.Gosched()
	}
	p.Close() // waits for the batch in progress
	closed = true

	after := make(map[uint64]int64, len(tracked))
	reset := c.Batches*64 >= c.ToReset
	st.resetDuringWindow = reset
	for _, k := range tracked {
		after[k] = p.admit.Estimate(k)
		want := before[k]
		if reset {
			want = beforeFreq[k] >> 1
		}
		if after[k] != want {
			st.collided = true
		}
	}
	if st.collided {
		return st, "", ""
	}
	st.added = r.added
	st.victims = len(r.victims)
	gone := map[uint64]bool{}
	for _, v := range r.victims {
		gone[v.Key] = true
		if hot[v.Key] {
			st.hotVictims++
		}
		if before[v.Key] > before[in] && after[v.Key] > after[in] {
			return st, "C09/victim-more-frequent-than-newcomer/concurrent-recording", fmt.Sprintf(
				"victim %d has estimate %d before and %d after the batch that completed the period; the newcomer %d and %d: no reading of the counters justifies the eviction",
				v.Key, before[v.Key], after[v.Key], before[in], after[in])
		}
	}
	if !r.added {
		justified := false
		var rest []uint64
		for _, k := range tracked {
			if k != in && !gone[k] {
				rest = append(rest, k)
			}
		}
		sort.Slice(rest, func(i, j int) bool { return rest[i] < rest[j] })
		for _, k := range rest {
			if before[k] > before[in] || after[k] > after[in] {
				justified = true
				break
			}
		}
		if !justified {
			return st, "C09/rejected-without-a-more-frequent-candidate/concurrent-recording", fmt.Sprintf(
				"newcomer (estimate %d / %d) turned away though none of the %d remaining residents is more frequent under either reading", before[in], after[in], len(rest))
		}
	}
	return st, "", ""
}

func TestVf_C09_PolicyConc(t *testing.T) {
	ev := vfNewEvidence(t, "C09")
	rapid.Check(t, func(t *rapid.T) {
		c := &vfPolicyConcCase{
			Colds:    rapid.SampledFrom([]int{200, 2000, 10000, 30000, 60000}).Draw(t, "colds"),
			Hots:     rapid.IntRange(1, 6).Draw(t, "hots"),
			HotFreq:  rapid.IntRange(2, 15).Draw(t, "hotFreq"),
			InFreq:   rapid.IntRange(1, 15).Draw(t, "inFreq"),
			ToReset:  rapid.SampledFrom([]int{1, 32, 64, 200, 100000}).Draw(t, "toReset"),
			Batches:  rapid.IntRange(1, 6).Draw(t, "batches"),
			DelayUs:  rapid.SampledFrom([]int{0, 50, 200, 500, 1000, 2000, 4000}).Draw(t, "delayUs"),
			InCostUp: int64(rapid.IntRange(0, 6).Draw(t, "inCostUp")),
			Salt:     rapid.Uint64Range(0, 1<<40).Draw(t, "salt"),
		}
		if c.InCostUp > int64(c.Hots) {
			c.InCostUp = int64(c.Hots) // never larger than the whole cache: that rejection is a different clause
		}
		st, sig, msg := vfRunPolicyConc(c)
		if sig != "" && sig[:3] == "C09" {
			t.Fatalf("%s", vfFail("C09", "policyconc", sig, c, "%s", msg))
		}
		if sig != "" {
			ev.Excluded("harness=" + sig)
			return
		}
		if st.collided {
			ev.Excluded("noise-touched-a-tracked-counter")
			return
		}
		if st.resetDuringWindow {
			ev.Class("policyconc:period-completed-by-a-concurrent-batch", 1)
		}
		if st.added {
			ev.Class("policyconc:admitted", 1)
		} else {
			ev.Class("policyconc:rejected", 1)
		}
		if st.hotVictims > 0 {
			ev.Class("policyconc:hot-victim-justified", 1)
		}
		// non-trivial: the halving could land inside the decision and the two readings disagree about the newcomer
		// against a hot resident (newcomer between the halved and un-halved hot estimate)
		nt := st.resetDuringWindow && c.InFreq < c.HotFreq && c.InFreq >= c.HotFreq/2 && st.victims > 0
		ev.Case(nt, vfHash(c.Colds, c.Hots, c.HotFreq, c.InFreq, c.ToReset, c.Batches, c.DelayUs, c.InCostUp, c.Salt), "policyconc-case")
		ev.Sample(nt, func() any {
			return map[string]any{"policyconc": c, "admitted": st.added, "victims": st.victims, "hot_victims": st.hotVictims}
		})
	})
}

func TestVfReplay_C09PolicyConc(t *testing.T) {
	var c vfPolicyConcCase
	if !vfLoadReplay(t, &c) {
		return
	}
	for i := 0; i < 30; i++ {
		if _, sig, msg := vfRunPolicyConc(&c); sig != "" && sig[:3] == "C09" {
			t.Fatalf("%s", vfFail("C09", "policyconc", sig, &c, "%s", msg))
		}
	}
}
