//go:build verif

package simd

// E8: simd.Search against the reference search (property C20).

import (
	"fmt"
	"math"
	"testing"

	"pgregory.net/rapid"
)

type vfSearchCase struct {
	N      int      `json:"n"`    // len(xs), even
	Off    int      `json:"off"`  // offset of xs in the backing array
	Back   []uint64 `json:"back"` // whole backing array
	K      uint64   `json:"k"`
	Nil    bool     `json:"nil"`   // xs is a nil slice
	XCap   int      `json:"xcap"`  // words of spare capacity behind len(xs) (the slice is a prefix of a larger array)
	Back2  []uint64 `json:"back2"` // second surrounding for the metamorphic check (same xs contents)
	Off2   int      `json:"off2"`
	Origin string   `json:"origin"` // generator classes, informational
}

func vfRefSearch(xs []uint64, k uint64) int {
	for i := 0; i < len(xs); i += 2 {
		if xs[i] >= k {
			return i / 2
		}
	}
	return len(xs) / 2
}

func vfCallSearch(xs []uint64, k uint64) (res int, panicked any) {
	defer func() {
		if r := recover(); r != nil {
			panicked = r
		}
	}()
	return int(Search(xs, k)), nil
}

// vfSearchTrailing reports whether a kernel that looks at four keys per step,
// without regard to the length, would see a word >= k behind the slice.
func vfSearchTrailing(c *vfSearchCase) (inspectsPast bool, pastHit bool) {
	if c.Nil {
		return false, false
	}
	n := c.N
	if n%8 == 0 && n != 0 {
		return false, false
	}
	xs := c.Back[c.Off : c.Off+n]
	if vfRefSearch(xs, c.K) != n/2 {
		return false, false // found inside: the kernel stops before the end
	}
	b := (n / 8) * 8
	for j := b; j < b+8; j += 2 {
		if j >= n {
			inspectsPast = true
			if c.Off+j < len(c.Back) && c.Back[c.Off+j] >= c.K {
				pastHit = true
			}
		}
	}
	return
}

func vfCheckSearchCase(c *vfSearchCase) (sig string, msg string) {
	var xs []uint64
	if !c.Nil {
		hi := c.Off + c.N + c.XCap
		if hi > len(c.Back) {
			hi = len(c.Back)
		}
		xs = c.Back[c.Off : c.Off+c.N : hi]
	}
	want := vfRefSearch(xs, c.K)
	if nv := int(Naive(xs, c.K)); nv != want {
		return "C20/naive-disagrees", fmt.Sprintf("Naive(xs,%d)=%d, reference loop=%d (len %d)", c.K, nv, want, len(xs))
	}
	got, p := vfCallSearch(xs, c.K)
	if p != nil {
		return "C20/panic", fmt.Sprintf("Search(len=%d nil=%v, k=%d) panicked: %v", len(xs), c.Nil, c.K, p)
	}
	if got != want {
		cls := "inside"
		if got > len(xs)/2 {
			cls = "beyond-length"
		} else if want == len(xs)/2 {
			cls = "found-in-trailing-memory"
		}
		return "C20/differs-from-reference/" + cls, fmt.Sprintf("Search(xs,k=%d)=%d but the first key >= k is at %d (len(xs)=%d, off=%d, xs=%v, following words=%v)",
			c.K, got, want, len(xs), c.Off, vfTrunc(xs), vfTrunc(c.Back[c.Off+c.N:]))
	}
	if c.Back2 != nil && !c.Nil {
		ys := c.Back2[c.Off2 : c.Off2+c.N : len(c.Back2)] // and a different capacity
		got2, p := vfCallSearch(ys, c.K)
		if p != nil {
			return "C20/panic", fmt.Sprintf("Search panicked on the second surrounding: %v", p)
		}
		if got2 != got {
			return "C20/depends-on-surroundings", fmt.Sprintf("same contents, different surroundings: %d vs %d (k=%d len=%d)", got, got2, c.K, c.N)
		}
	}
	return "", ""
}

func vfTrunc(xs []uint64) []uint64 {
	if len(xs) > 24 {
		return xs[:24]
	}
	return xs
}

func vfGenSearchCase(t *rapid.T) *vfSearchCase {
	c := &vfSearchCase{}
	// length: all even values 0..520, biased to the small ones and to the edges of 8-word blocks
	switch rapid.IntRange(0, 9).Draw(t, "nmode") {
	case 0, 1, 2:
		c.N = 2 * rapid.IntRange(0, 20).Draw(t, "n")
	case 3:
		c.N = 2 * rapid.IntRange(250, 260).Draw(t, "n")
	default:
		c.N = 2 * rapid.IntRange(0, 260).Draw(t, "n")
	}
	if c.N == 0 && rapid.IntRange(0, 7).Draw(t, "nil") == 0 {
		c.Nil = true
	}
	c.Off = rapid.IntRange(0, 9).Draw(t, "off")
	pad := rapid.IntRange(8, 17).Draw(t, "pad")
	c.Back = make([]uint64, c.Off+c.N+pad)
	if rapid.Bool().Draw(t, "sparecap") {
		c.XCap = rapid.IntRange(1, pad).Draw(t, "xcap")
	}
	// ascending keys on the even positions
	mode := rapid.SampledFrom([]string{"dense", "sparse", "high", "low-start", "dups"}).Draw(t, "keymode")
	var cur uint64
	switch mode {
	case "dense", "dups":
		cur = rapid.Uint64Range(0, 40).Draw(t, "start")
	case "sparse":
		cur = rapid.Uint64Range(0, 1<<40).Draw(t, "start")
	case "high":
		cur = math.MaxUint64 - rapid.Uint64Range(0, uint64(c.N)*3+8).Draw(t, "start")
	case "low-start":
		cur = 0
	}
	keys := make([]uint64, 0, c.N/2)
	for i := 0; i < c.N; i += 2 {
		c.Back[c.Off+i] = cur
		keys = append(keys, cur)
		c.Back[c.Off+i+1] = rapid.Uint64().Draw(t, "val")
		var step uint64
		switch mode {
		case "dense", "low-start":
			step = rapid.Uint64Range(1, 3).Draw(t, "step")
		case "dups":
			step = rapid.Uint64Range(0, 2).Draw(t, "step")
		case "sparse":
			step = rapid.Uint64Range(1, 1<<50).Draw(t, "step")
		case "high":
			step = rapid.Uint64Range(0, 4).Draw(t, "step")
		}
		if cur+step < cur {
			cur = math.MaxUint64
		} else {
			cur += step
		}
	}
	// k
	kmode := rapid.IntRange(0, 9).Draw(t, "kmode")
	switch {
	case kmode == 0:
		c.K = 0
	case kmode == 1:
		c.K = math.MaxUint64
	case kmode <= 5 && len(keys) > 0:
		base := keys[rapid.IntRange(0, len(keys)-1).Draw(t, "kidx")]
		switch rapid.IntRange(0, 2).Draw(t, "kd") {
		case 0:
			c.K = base
		case 1:
			c.K = base + 1
		default:
			c.K = base - 1
		}
	case kmode <= 7 && len(keys) > 0:
		// beyond the last key: forces the search to the end of the slice
		last := keys[len(keys)-1]
		c.K = last + rapid.Uint64Range(1, 5).Draw(t, "kpast")
		if c.K < last {
			c.K = math.MaxUint64
		}
	default:
		c.K = rapid.Uint64().Draw(t, "k")
	}
	fill := func(back []uint64, off int, label string) {
		for i := range back {
			if i >= off && i < off+c.N {
				continue
			}
			var v uint64
			switch rapid.IntRange(0, 7).Draw(t, label) {
			case 0:
				v = 0
			case 1:
				v = math.MaxUint64
			case 2:
				v = c.K
			case 3:
				v = c.K + 1
			case 4:
				v = c.K - 1
			case 5:
				if len(keys) > 0 {
					v = keys[rapid.IntRange(0, len(keys)-1).Draw(t, label+"k")]
				}
			default:
				v = rapid.Uint64().Draw(t, label+"r")
			}
			back[i] = v
		}
	}
	fill(c.Back, c.Off, "surround")
	if !c.Nil && rapid.Bool().Draw(t, "meta") {
		c.Off2 = rapid.IntRange(0, 9).Draw(t, "off2")
		c.Back2 = make([]uint64, c.Off2+c.N+rapid.IntRange(8, 17).Draw(t, "pad2"))
		copy(c.Back2[c.Off2:], c.Back[c.Off:c.Off+c.N])
		fill(c.Back2, c.Off2, "surround2")
	}
	c.Origin = fmt.Sprintf("keys=%s kmode=%d", mode, kmode)
	return c
}

func vfSearchClasses(c *vfSearchCase) (nontrivial bool, classes []string) {
	classes = append(classes, fmt.Sprintf("n%%8=%d", c.N%8))
	if c.Nil {
		classes = append(classes, "nil-slice")
	}
	if c.N == 0 {
		classes = append(classes, "empty")
	}
	if c.K == 0 {
		classes = append(classes, "k=0")
	}
	if c.K == math.MaxUint64 {
		classes = append(classes, "k=max")
	}
	if !c.Nil && vfRefSearch(c.Back[c.Off:c.Off+c.N], c.K) == c.N/2 {
		classes = append(classes, "no-key>=k")
	}
	if c.Back2 != nil {
		classes = append(classes, "metamorphic-pair")
	}
	if c.XCap > 0 {
		classes = append(classes, "spare-capacity-behind-the-slice")
	}
	past, hit := vfSearchTrailing(c)
	if past {
		classes = append(classes, "kernel-would-inspect-past-end")
	}
	return hit, classes
}

func TestVf_C20(t *testing.T) {
	ev := vfNewEvidence(t, "C20")
	rapid.Check(t, func(t *rapid.T) {
		c := vfGenSearchCase(t)
		nt, classes := vfSearchClasses(c)
		h := vfNewHasher()
		h.Add(uint64(c.N))
		h.Add(c.K)
		for _, w := range c.Back[c.Off:] {
			h.Add(w)
		}
		ev.Case(nt, h.Sum(), classes...)
		ev.Sample(nt, func() any {
			return map[string]any{"len": c.N, "k": c.K, "xs": vfTrunc(c.Back[c.Off : c.Off+c.N]),
				"following_words": vfTrunc(c.Back[c.Off+c.N:]), "origin": c.Origin}
		})
		if sig, msg := vfCheckSearchCase(c); sig != "" {
			t.Fatalf("%s", vfFail("C20", "search", sig, c, "%s", msg))
		}
	})
}

// Exhaustive companion: every even length 0..520, every position of the first
// matching key (k = each key, each key+1, 0, max) over one dense array, with the
// words behind the slice following five patterns (f leading zeros, then all ones).
func TestVf_C20_Enum(t *testing.T) {
	ev := vfNewEvidence(t, "C20")
	ev.SetExhaustive(true)
	for n := 0; n <= 520; n += 2 {
		// trailing pattern f: the first f key positions behind the slice hold 0, all later words 2^64-1
		for f := 0; f <= 4; f++ {
			back := make([]uint64, n+16)
			for i := 0; i < n; i += 2 {
				back[i] = uint64(i/2)*2 + 2
				back[i+1] = 7
			}
			for i := n; i < len(back); i++ {
				back[i] = math.MaxUint64
				if (i-n)%2 == 0 && (i-n)/2 < f {
					back[i] = 0
				}
			}
			ks := []uint64{0, 1, math.MaxUint64}
			for i := 0; i < n; i += 2 {
				ks = append(ks, back[i], back[i]+1)
			}
			for _, k := range ks {
				for _, xcap := range []int{0, 16} {
					c := &vfSearchCase{N: n, Back: back, K: k, XCap: xcap, Origin: "enum"}
					_, hit := vfSearchTrailing(c)
					ev.Case(hit, vfHash(n, f, k, xcap), fmt.Sprintf("enum-n%%8=%d", n%8))
					if sig, msg := vfCheckSearchCase(c); sig != "" {
						cc := *c
						cc.Back = append([]uint64(nil), back...)
						t.Fatalf("%s", vfFail("C20", "enum", sig, &cc, "%s", msg))
					}
				}
			}
		}
	}
}

// Concurrent callers: Search must be a pure function of (xs, k) also when several goroutines call it at once on
// their own slices (no hidden shared scratch state).
func TestVf_C20_Conc(t *testing.T) {
	ev := vfNewEvidence(t, "C20")
	rapid.Check(t, func(t *rapid.T) {
		g := rapid.IntRange(2, 8).Draw(t, "goroutines")
		cases := make([]*vfSearchCase, g)
		for i := range cases {
			cases[i] = vfGenSearchCase(t)
			cases[i].Back2 = nil
		}
		rounds := rapid.IntRange(50, 400).Draw(t, "rounds")
		type bad struct {
			c        *vfSearchCase
			sig, msg string
		}
		res := make(chan bad, g)
		start := make(chan struct{})
		for i := range cases {
			go func(c *vfSearchCase) {
				<-start
				for r := 0; r < rounds; r++ {
					if sig, msg := vfCheckSearchCase(c); sig != "" {
						res <- bad{c, sig, msg}
						return
					}
				}
				res <- bad{}
			}(cases[i])
		}
		close(start)
		var first *bad
		for range cases {
			if b := <-res; b.sig != "" && first == nil {
				bb := b
				first = &bb
			}
		}
		tails := 0
		for _, c := range cases {
			if c.N%8 != 0 {
				tails++
			}
		}
		ev.Case(tails >= 2, vfHash(g, rounds, cases[0].N, cases[0].K, cases[g-1].N, cases[g-1].K), "concurrent-callers")
		ev.Sample(tails >= 2, func() any {
			return map[string]any{"goroutines": g, "rounds_each": rounds, "lengths": func() []int {
				var l []int
				for _, c := range cases {
					l = append(l, c.N)
				}
				return l
			}()}
		})
		if first != nil {
			t.Fatalf("%s", vfFail("C20", "search", "C20/concurrent-callers/"+first.sig[4:], first.c, "with %d concurrent callers: %s", g, first.msg))
		}
	})
}

// History independence: a sequence of searches on ONE array that is modified in place between the calls (same base
// address, same length), with non-decreasing and arbitrary keys - the answer may depend on the current contents only.
type vfSearchHist struct {
	N     int        `json:"n"`
	Steps [][]uint64 `json:"steps"` // each step: [k, pos, newkey] - set key slot pos to newkey (keeping ascending order), then search k
	Init  []uint64   `json:"init"`
}

func TestVf_C20_History(t *testing.T) {
	ev := vfNewEvidence(t, "C20")
	rapid.Check(t, func(t *rapid.T) {
		n := 2 * rapid.IntRange(1, 80).Draw(t, "n")
		back := make([]uint64, n+16)
		h := &vfSearchHist{N: n}
		cur := rapid.Uint64Range(0, 50).Draw(t, "start")
		for i := 0; i < n; i += 2 {
			back[i] = cur
			back[i+1] = 1
			cur += rapid.Uint64Range(1, 20).Draw(t, "step")
		}
		h.Init = append([]uint64(nil), back[:n]...)
		xs := back[:n:n]
		steps := rapid.IntRange(2, 12).Draw(t, "steps")
		k := uint64(0)
		moved := false
		for s := 0; s < steps; s++ {
			// rewrite a stretch of keys in place: shift all keys down or up by a constant (order is preserved)
			switch rapid.IntRange(0, 3).Draw(t, "edit") {
			case 0:
				d := rapid.Uint64Range(1, 400).Draw(t, "up")
				for i := 0; i < n; i += 2 {
					xs[i] += d
				}
				moved = true
			case 1:
				d := rapid.Uint64Range(1, 400).Draw(t, "down")
				if xs[0] >= d {
					for i := 0; i < n; i += 2 {
						xs[i] -= d
					}
				}
			case 2:
				// refill completely with a new ascending run
				c := rapid.Uint64Range(0, 3000).Draw(t, "restart")
				for i := 0; i < n; i += 2 {
					xs[i] = c
					c += rapid.Uint64Range(1, 20).Draw(t, "step2")
				}
				moved = true
			}
			if rapid.Bool().Draw(t, "ascendingk") {
				k += rapid.Uint64Range(0, 60).Draw(t, "kinc")
			} else {
				k = rapid.Uint64Range(0, 4000).Draw(t, "k")
			}
			h.Steps = append(h.Steps, append([]uint64{k}, xs...))
			want := vfRefSearch(xs, k)
			got, p := vfCallSearch(xs, k)
			if p != nil || got != want {
				t.Fatalf("%s", vfFail("C20", "search", "C20/depends-on-call-history", h, "after %d earlier searches and in-place edits of the same array: Search(xs,%d)=%d (panic %v), the first key >= k is at %d", s, k, got, p, want))
			}
		}
		ev.Case(moved && steps >= 3, vfHash(n, steps, k, xs[0]), "history-on-one-array")
		ev.Sample(moved, func() any { return map[string]any{"len": n, "searches_on_the_same_array": steps} })
	})
}

func TestVfReplay_C20(t *testing.T) {
	var c vfSearchCase
	if !vfLoadReplay(t, &c) {
		return
	}
	if sig, msg := vfCheckSearchCase(&c); sig != "" {
		t.Fatalf("%s", vfFail("C20", "replay", sig, &c, "%s", msg))
	}
}

// Native fuzzing with a direct byte decoding (words, k) plus hostile constants in the corpus.
func FuzzVf_C20(f *testing.F) {
	le := func(ws ...uint64) []byte {
		var b []byte
		for _, w := range ws {
			for i := 0; i < 8; i++ {
				b = append(b, byte(w>>(8*i)))
			}
		}
		return b
	}
	f.Add(le(1, 9, 0, 9, 5, 9, 7, 9, 9, 9), uint64(3), uint8(2), uint8(0))
	f.Add(le(), uint64(0), uint8(0), uint8(0))
	f.Add(le(0, 0, math.MaxUint64, 0, math.MaxUint64, 0, math.MaxUint64, 0, math.MaxUint64, 0), uint64(math.MaxUint64), uint8(2), uint8(1))
	f.Add(le(2, 1, 4, 1, 6, 1, 8, 1, 10, 1, 12, 1, 14, 1, 16, 1, 18, 1, 20, 1), uint64(1<<63), uint8(10), uint8(3))
	f.Fuzz(func(t *testing.T, raw []byte, k uint64, n uint8, off uint8) {
		words := make([]uint64, len(raw)/8)
		for i := range words {
			for j := 0; j < 8; j++ {
				words[i] |= uint64(raw[i*8+j]) << (8 * j)
			}
		}
		c := &vfSearchCase{Off: int(off % 8), K: k, Origin: "fuzz"}
		c.N = 2 * (int(n) % 128)
		if c.Off+c.N > len(words) {
			c.N = (len(words) - c.Off) &^ 1
			if c.N < 0 {
				c.N, c.Off = 0, 0
			}
		}
		c.Back = append(words, make([]uint64, 16)...)
		for i := len(words); i < len(c.Back); i++ {
			c.Back[i] = k + uint64(i%3) - 1
		}
		// keys ascending as in tree nodes: sort the even positions of the slice
		ks := make([]uint64, 0, c.N/2)
		for i := 0; i < c.N; i += 2 {
			ks = append(ks, c.Back[c.Off+i])
		}
		for i := 1; i < len(ks); i++ {
			for j := i; j > 0 && ks[j] < ks[j-1]; j-- {
				ks[j], ks[j-1] = ks[j-1], ks[j]
			}
		}
		for i := range ks {
			c.Back[c.Off+2*i] = ks[i]
		}
		if sig, msg := vfCheckSearchCase(c); sig != "" {
			t.Fatalf("%s", vfFail("C20", "search", sig, c, "%s", msg))
		}
	})
}
