"""Stage table of the driver: which tests decide which property, with which budgets.

Each stage: name, pkg (ristretto|z|simd), test (Go test function), flavour (plain|race),
quick=(cases, shards), thorough=(cases, shards), optional replay_test, env, fuzz,
thorough_only, fixed_cases (the test does not use rapid's case count).
"""

STAGES = {
    "C20": [
        dict(name="search", pkg="simd", test="TestVf_C20", replay_test="TestVfReplay_C20",
             quick=(40000, 1), thorough=(1000000, 16), crash_is_violation=True),
        dict(name="enum", pkg="simd", test="TestVf_C20_Enum", quick=(1, 1), thorough=(1, 1), fixed_cases=True,
             crash_is_violation=True),
        dict(name="history", pkg="simd", test="TestVf_C20_History", quick=(4000, 1), thorough=(100000, 16), crash_is_violation=True),
        dict(name="conc", pkg="simd", test="TestVf_C20_Conc", flavour="race", quick=(300, 1), thorough=(3000, 16),
             crash_is_violation=True, race_is_violation=True),
    ],
}

STAGES["C10"] = [
    dict(name="tree", pkg="z", test="TestVf_C10", replay_test="TestVfReplay_C10",
         quick=(1500, 2), thorough=(30000, 16), crash_is_violation=True),
]
STAGES["C16"] = [
    dict(name="ptree", pkg="z", test="TestVf_C16", replay_test="TestVfReplay_C16",
         quick=(800, 1), thorough=(4000, 16), crash_is_violation=True),
]

STAGES["C19"] = [
    dict(name="bloom", pkg="z", test="TestVf_C19", replay_test="TestVfReplay_C19",
         quick=(3000, 1), thorough=(30000, 16), crash_is_violation=True),
]
STAGES["C18"] = [
    dict(name="sketch", pkg="ristretto", test="TestVf_C18_Sketch", replay_test="TestVfReplay_C18",
         quick=(6000, 1), thorough=(100000, 16), crash_is_violation=True),
    dict(name="lfu", pkg="ristretto", test="TestVf_C18_LFU", replay_test="TestVfReplay_C18",
         quick=(4000, 1), thorough=(60000, 16), crash_is_violation=True),
    dict(name="enum", pkg="ristretto", test="TestVf_C18_Enum", quick=(1, 1), thorough=(1, 1), fixed_cases=True,
         crash_is_violation=True),
]

STAGES["C11"] = [
    dict(name="buffer", pkg="z", test="TestVf_C11", replay_test="TestVfReplay_C11",
         quick=(2500, 1), thorough=(10000, 16), crash_is_violation=True),
]

STAGES["C12"] = [
    dict(name="seq", pkg="z", test="TestVf_C12_Seq", replay_test="TestVfReplay_C12",
         quick=(3000, 1), thorough=(20000, 16), crash_is_violation=True),
    dict(name="long", pkg="z", test="TestVf_C12_Long", replay_test="TestVfReplay_C12Long",
         quick=(6, 1), thorough=(60, 4), crash_is_violation=True),
    dict(name="conc", pkg="z", test="TestVf_C12_Conc", flavour="race",
         quick=(250, 1), thorough=(1500, 16), crash_is_violation=True, race_is_violation=True),
]

STAGES["C09"] = [
    dict(name="policy", pkg="ristretto", test="TestVf_C09_Policy", replay_test="TestVfReplay_C09",
         quick=(20000, 1), thorough=(200000, 16), crash_is_violation=True),
    dict(name="policyconc", pkg="ristretto", test="TestVf_C09_PolicyConc", replay_test="TestVfReplay_C09PolicyConc",
         quick=(60, 1), thorough=(600, 4), crash_is_violation=True, exclusive=True),
]

def _fuzz(pid, pkg, secs):
    return dict(name="nativefuzz", pkg=pkg, test="FuzzVf_" + pid, flavour="fuzz", fuzz=True, thorough_only=True, exclusive=True,
                quick=(0, 0), thorough=(secs, 1), crash_is_violation=True, budget_thorough=secs + 240)

STAGES["C10"].append(_fuzz("C10", "z", 120))
STAGES["C11"].append(_fuzz("C11", "z", 120))
STAGES["C19"].append(_fuzz("C19", "z", 60))
STAGES["C20"].append(_fuzz("C20", "simd", 60))

def _sm(pid, quick, thorough):
    return dict(name="cachesm", pkg="ristretto", test="TestVf_SM_" + pid, replay_test="TestVfReplay_SM",
                quick=(quick, 1), thorough=(thorough, 16), crash_is_violation=True)

def _conc(pid, quick, thorough, race=False):
    d = dict(name="cacheconc", pkg="ristretto", test="TestVf_Conc_" + pid, replay_test="TestVfReplay_Conc",
             quick=(quick, 1), thorough=(thorough, 16), crash_is_violation=True, shrinktime="30s")
    if race:
        d.update(flavour="race", race_is_violation=True, name="cacheconc-race")
    return d

STAGES["C01"] = [_conc("C01", 1200, 4000),
                 dict(name="stress", pkg="ristretto", test="TestVf_C01_Stress", replay_test="TestVfReplay_C01Stress",
                      quick=(12, 1), thorough=(60, 2), crash_is_violation=True, exclusive=True)]
STAGES["C02"] = [_conc("C02", 300, 1500), _sm("C02", 2000, 15000)]
STAGES["C04"] = [_conc("C04", 300, 1500), _sm("C04", 2000, 15000)]
STAGES["C08"] = [_conc("C08", 150, 600, race=True)]
STAGES["C06"] = [_sm("C06", 3000, 30000)]
for _pid in ["C03", "C05", "C07", "C13", "C14", "C15", "C17"]:
    STAGES[_pid] = [_sm(_pid, 3000, 20000)]
STAGES["C09"].append(_sm("C09", 2000, 20000))
STAGES["C03"].append(dict(name="policy", pkg="ristretto", test="TestVf_C03_Policy", replay_test="TestVfReplay_C09",
                          quick=(10000, 1), thorough=(100000, 16), crash_is_violation=True))
STAGES["C14"].append(dict(name="window", pkg="ristretto", test="TestVf_C14_Window", replay_test="TestVfReplay_C14Window",
                          quick=(1, 1), thorough=(1, 1), fixed_cases=True, crash_is_violation=True))
for _pid in ["C03", "C04", "C08", "C13", "C17"]:
    STAGES[_pid].append(dict(name="long", pkg="ristretto", test="TestVf_%s_Long" % _pid, replay_test="TestVfReplay_Long",
                             quick=(3, 1), thorough=(24, 4), crash_is_violation=True))
for _pid in ["C14", "C07"]:
    STAGES[_pid].append(dict(name="sweepstress", pkg="ristretto", test="TestVf_%s_SweepStress" % _pid, replay_test="TestVfReplay_SweepStress",
                             quick=(16, 1), thorough=(200, 4), crash_is_violation=True, exclusive=True))
STAGES["C14"].append(dict(name="backlog", pkg="ristretto", test="TestVf_C14_Backlog", replay_test="TestVfReplay_C14Backlog",
                          quick=(40, 1), thorough=(400, 8), crash_is_violation=True))
for _pid in ["C03", "C05", "C07", "C13", "C17"]:
    STAGES[_pid].append(_conc(_pid, 200, 1000))

# A test process that dies without a harness verdict (a panic in one of the cache's own goroutines, a fatal error) is
# a violation only where the property speaks about panics or about what every call returns: C08 for the cache, and the
# z checks (whose harness recovers ordinary panics of the call under test itself, so a dead process there is a fault).
# For the other cache properties it means "could not be decided" (exit 2): the crash is C08's to report.
for _pid in ["C01", "C02", "C03", "C04", "C05", "C06", "C07", "C09", "C13", "C14", "C15", "C17", "C18"]:
    for _st in STAGES[_pid]:
        _st["crash_is_violation"] = False

RULES = {
    'C01': "cacheconc stage: 2..16 (thorough ..64) goroutines x 10..120 generated ops on 2..32 shared keys (hot-key bias, some owned keys), GOMAXPROCS 1..16, yielding/fake-sleeping callbacks, setBufSize 1..1024, MaxCost 3..22, inside a synctest bubble; every op and callback stamped from one atomic counter; history oracles are linear-time and schedule-independent. Key types uint64,int,int32,uint32,int64,uint,byte,string,[]byte and named types of them (reflection path of KeyToHash); text keys include the empty key, NUL bytes, one number at several widths, shared prefixes, 8/9-byte keys; a yielding ShouldUpdate predicate in some cases; for string/[]byte also Config.KeyToHash mapping all keys onto 1..3 primary hashes with distinct non-zero conflicts (and a distinct-primaries control). Oracle: every value returned by Get/IterValues was supplied by a Set for exactly that key whose invocation precedes the read's return. stress stage: 4..16 goroutines hammer Set/Get/Del on 2..16 keys for 250 ms of real time per case with a tiny write buffer and an applier stalled inside Config.Cost; every value carries its key in the upper 32 bits and every hit is checked (no history; the count of operations is reported). Non-trivial: >=1 hit on a key sharing its primary hash with another written key, or >=1 hit while a write to the same key was in flight (stress: >1000 checked hits with a stalled applier); distinct = FNV hash of (config, programs).",
    'C02': "cacheconc stage: 2..16 (thorough ..64) goroutines x 10..120 generated ops on 2..32 shared keys (hot-key bias, some owned keys), GOMAXPROCS 1..16, yielding/fake-sleeping callbacks, setBufSize 1..1024, MaxCost 3..22, inside a synctest bubble; every op and callback stamped from one atomic counter; history oracles are linear-time and schedule-independent. Oracle: no Get/IterValues invoked after a value's OnExit stamp returns it. cachesm stage: sequential client + harness-owned applier + synctest fake clock (DESIGN.md section 3, E1). Per case a config (MaxCost fitting 2..5 items or roomy, NumCounters, BufferItems, Metrics, IgnoreInternalCost, Cost fn, ShouldUpdate fn, ticker 1..5 s, setBufSize 1..64, bucket 1|5 s, 8|32 keys) and 5..60+ generated actions from Set/SetWithTTL/Del/Get/GetTTL/IterValues/Step(n)/Wait/park-in-Wait/Advance(d)/Sweep/SweepWith(program of Set/Del/Get/IterValues inside the j-th OnEvict)/Quiesce/UpdateMaxCost/Clear (stand-in or live applier), always ended by drain + Close + calls on the closed cache. Oracle: reference model with explicit FIFO (rules R1-R9); only assertions owned by this property are reported, a case that breaks another property's assertion first is discarded and counted. C02-owned: no read returns a value already passed to OnExit / already overwritten. Non-trivial (conc): >=1 served value that later exited; (cachesm): eviction, expiry or Del occurred and a drained check saw residents.",
    'C03': "cachesm stage: sequential client + harness-owned applier + synctest fake clock (DESIGN.md section 3, E1). Per case a config (MaxCost fitting 2..5 items or roomy, NumCounters, BufferItems, Metrics, IgnoreInternalCost, Cost fn, ShouldUpdate fn, ticker 1..5 s, setBufSize 1..64, bucket 1|5 s, 8|32 keys) and 5..60+ generated actions from Set/SetWithTTL/Del/Get/GetTTL/IterValues/Step(n)/Wait/park-in-Wait/Advance(d)/Sweep/SweepWith(program of Set/Del/Get/IterValues inside the j-th OnEvict)/Quiesce/UpdateMaxCost/Clear (stand-in or live applier), always ended by drain + Close + calls on the closed cache. Oracle: reference model with explicit FIFO (rules R1-R9); only assertions owned by this property are reported, a case that breaks another property's assertion first is discarded and counted. C03-owned: after every applied item RemainingCost()==MaxCost-sum(accounted)==MaxCost-model used; cost>MaxCost never admitted; OnEvict carries the accounted cost; RemainingCost()>=0 when drained unless a cost-raising overwrite occurred. Non-trivial: an admission that needed eviction after a cost-changing overwrite/Del was applied. cacheconc stage: 2..16 (thorough ..64) goroutines x 10..120 generated ops on 2..32 shared keys (hot-key bias, some owned keys), GOMAXPROCS 1..16, yielding/fake-sleeping callbacks, setBufSize 1..1024, MaxCost 3..22, inside a synctest bubble; every op and callback stamped from one atomic counter; history oracles are linear-time and schedule-independent. End state after Wait: RemainingCost identity. (cachesm, drained: a key charged a non-zero cost that the map does not hold breaks 'MaxCost minus the costs of the resident keys' - shared with C13.) long stage: per case three runs on caches of their own (metrics on): Set/Wait/Del churn over 20 000..140 000 fresh keys in batches of 8..256, overfilling with 30 000..170 000 keys, 6 000..40 000 Sets of cost 1..9 into a cache of 100 units; at checkpoints after Wait: RemainingCost()==MaxCost-sum of accounted costs<=MaxCost (C03), accounted keys==map keys (C13), KeysAdded-KeysEvicted==keys in the map and CostAdded-CostEvicted==MaxCost-RemainingCost() (C17); at Close every accepted value exited exactly once (C04); a panic of the applier kills the process (C08). Each check reports only its own assertions; non-trivial: >100 000 values admitted or >4096 evictions.",
    'C04': "cacheconc stage: 2..16 (thorough ..64) goroutines x 10..120 generated ops on 2..32 shared keys (hot-key bias, some owned keys), GOMAXPROCS 1..16, yielding/fake-sleeping callbacks, setBufSize 1..1024, MaxCost 3..22, inside a synctest bubble; every op and callback stamped from one atomic counter; history oracles are linear-time and schedule-independent. Oracle after Close: every value whose Set returned true has exactly one OnExit, none for refused Sets, OnEvict/OnReject <=1 each and before the OnExit, values accepted before a Clear was invoked exit before it returns. cachesm stage: sequential client + harness-owned applier + synctest fake clock (DESIGN.md section 3, E1). Per case a config (MaxCost fitting 2..5 items or roomy, NumCounters, BufferItems, Metrics, IgnoreInternalCost, Cost fn, ShouldUpdate fn, ticker 1..5 s, setBufSize 1..64, bucket 1|5 s, 8|32 keys) and 5..60+ generated actions from Set/SetWithTTL/Del/Get/GetTTL/IterValues/Step(n)/Wait/park-in-Wait/Advance(d)/Sweep/SweepWith(program of Set/Del/Get/IterValues inside the j-th OnEvict)/Quiesce/UpdateMaxCost/Clear (stand-in or live applier), always ended by drain + Close + calls on the closed cache. Oracle: reference model with explicit FIFO (rules R1-R9); only assertions owned by this property are reported, a case that breaks another property's assertion first is discarded and counted. C04-owned: per-callback bookkeeping, nothing unreleased after Clear/Close (concurrent engine: an OnExit that arrives after a Clear returned is accepted only when it happens inside a Del or a successful Set of the same key that was in flight - that call had detached the value and delivers it; counted). Non-trivial: buffer-full drop + rejection/eviction + a Clear (cachesm: that found buffered items). long stage: per case three runs on caches of their own (metrics on): Set/Wait/Del churn over 20 000..140 000 fresh keys in batches of 8..256, overfilling with 30 000..170 000 keys, 6 000..40 000 Sets of cost 1..9 into a cache of 100 units; at checkpoints after Wait: RemainingCost()==MaxCost-sum of accounted costs<=MaxCost (C03), accounted keys==map keys (C13), KeysAdded-KeysEvicted==keys in the map and CostAdded-CostEvicted==MaxCost-RemainingCost() (C17); at Close every accepted value exited exactly once (C04); a panic of the applier kills the process (C08). Each check reports only its own assertions; non-trivial: >100 000 values admitted or >4096 evictions.",
    'C05': "cachesm stage: sequential client + harness-owned applier + synctest fake clock (DESIGN.md section 3, E1). Per case a config (MaxCost fitting 2..5 items or roomy, NumCounters, BufferItems, Metrics, IgnoreInternalCost, Cost fn, ShouldUpdate fn, ticker 1..5 s, setBufSize 1..64, bucket 1|5 s, 8|32 keys) and 5..60+ generated actions from Set/SetWithTTL/Del/Get/GetTTL/IterValues/Step(n)/Wait/park-in-Wait/Advance(d)/Sweep/SweepWith(program of Set/Del/Get/IterValues inside the j-th OnEvict)/Quiesce/UpdateMaxCost/Clear (stand-in or live applier), always ended by drain + Close + calls on the closed cache. Oracle: reference model with explicit FIFO (rules R1-R9); only assertions owned by this property are reported, a case that breaks another property's assertion first is discarded and counted. C05-owned: once Del(k) returned, the FIFO drained and no Set(k) was issued, every read of k misses. Non-trivial: Del issued while an insert of k was still buffered. cacheconc stage: 2..16 (thorough ..64) goroutines x 10..120 generated ops on 2..32 shared keys (hot-key bias, some owned keys), GOMAXPROCS 1..16, yielding/fake-sleeping callbacks, setBufSize 1..1024, MaxCost 3..22, inside a synctest bubble; every op and callback stamped from one atomic counter; history oracles are linear-time and schedule-independent. Owned keys: Del, Wait, Get by the owner misses; a third of the cases use string keys with engineered primary-hash collisions, owners have two private keys and the pattern Set(a), [Del(b)], Del(a), Wait, Get(a) is generated as a unit.",
    'C06': "cachesm stage: sequential client + harness-owned applier + synctest fake clock (DESIGN.md section 3, E1). Per case a config (MaxCost fitting 2..5 items or roomy, NumCounters, BufferItems, Metrics, IgnoreInternalCost, Cost fn, ShouldUpdate fn, ticker 1..5 s, setBufSize 1..64, bucket 1|5 s, 8|32 keys) and 5..60+ generated actions from Set/SetWithTTL/Del/Get/GetTTL/IterValues/Step(n)/Wait/park-in-Wait/Advance(d)/Sweep/SweepWith(program of Set/Del/Get/IterValues inside the j-th OnEvict)/Quiesce/UpdateMaxCost/Clear (stand-in or live applier), always ended by drain + Close + calls on the closed cache. Oracle: reference model with explicit FIFO (rules R1-R9); only assertions owned by this property are reported, a case that breaks another property's assertion first is discarded and counted. Roomy configs only: MaxCost 2^40, or 'snug' (2-4 keys, MaxCost = keys x largest generated cost) with the assertion that nothing is evicted or turned away when everything fits. C06-owned: Set return values given FIFO occupancy, every Get/GetTTL/IterValues result equals the reference map (keys with duplicate buffered inserts are outside the premise), buffer empty when the reference FIFO is, a parked Wait returns exactly when its marker is consumed. Non-trivial: a hit on a value whose insert stayed buffered across >=1 other client call and a Wait with >=2 pending items.",
    'C07': "cachesm stage: sequential client + harness-owned applier + synctest fake clock (DESIGN.md section 3, E1). Per case a config (MaxCost fitting 2..5 items or roomy, NumCounters, BufferItems, Metrics, IgnoreInternalCost, Cost fn, ShouldUpdate fn, ticker 1..5 s, setBufSize 1..64, bucket 1|5 s, 8|32 keys) and 5..60+ generated actions from Set/SetWithTTL/Del/Get/GetTTL/IterValues/Step(n)/Wait/park-in-Wait/Advance(d)/Sweep/SweepWith(program of Set/Del/Get/IterValues inside the j-th OnEvict)/Quiesce/UpdateMaxCost/Clear (stand-in or live applier), always ended by drain + Close + calls on the closed cache. Oracle: reference model with explicit FIFO (rules R1-R9); only assertions owned by this property are reported, a case that breaks another property's assertion first is discarded and counted. TTL-heavy profile with Advance to exp-1ns/exp/exp+1ns. C07-owned: reads serve an entry iff now<=expiration (either answer at the instant), GetTTL == remaining time exactly, (0,true) without TTL, negative ttl returns false. Non-trivial: an observation within 1ns of an expiration and a TTL replaced while the old one was pending. cacheconc stage: 2..16 (thorough ..64) goroutines x 10..120 generated ops on 2..32 shared keys (hot-key bias, some owned keys), GOMAXPROCS 1..16, yielding/fake-sleeping callbacks, setBufSize 1..1024, MaxCost 3..22, inside a synctest bubble; every op and callback stamped from one atomic counter; history oracles are linear-time and schedule-independent. A read invoked after call-time+ttl never returns the value. sweepstress stage: as described under C14 (re-writes with a later or no TTL at the instant of the sweep; a re-written entry that disappears was hidden by TTL processing before its instant).",
    'C08': 'cacheconc stage: 2..16 (thorough ..64) goroutines x 10..120 generated ops on 2..32 shared keys (hot-key bias, some owned keys), GOMAXPROCS 1..16, yielding/fake-sleeping callbacks, setBufSize 1..1024, MaxCost 3..22, inside a synctest bubble; every op and callback stamped from one atomic counter; history oracles are linear-time and schedule-independent. All twelve call types (UpdateMaxCost also lowering and toggling the capacity), clients that wake exactly at expiry ticks, under -race with GORACE halt_on_error. Oracle: race detector, panics in any goroutine, a virtual-time watchdog (24h of fake time pass only if every goroutine is durably blocked) and a stop-the-world goroutine census for mutex deadlocks (no goroutine running cache code runnable, one or more waiting for a mutex, twice 3 s apart). Non-trivial: >=3 distinct call types overlapped in time on one key, or a Clear ran in a case with hits. long stage: per case three runs on caches of their own (metrics on): Set/Wait/Del churn over 20 000..140 000 fresh keys in batches of 8..256, overfilling with 30 000..170 000 keys, 6 000..40 000 Sets of cost 1..9 into a cache of 100 units; at checkpoints after Wait: RemainingCost()==MaxCost-sum of accounted costs<=MaxCost (C03), accounted keys==map keys (C13), KeysAdded-KeysEvicted==keys in the map and CostAdded-CostEvicted==MaxCost-RemainingCost() (C17); at Close every accepted value exited exactly once (C04); a panic of the applier kills the process (C08). Each check reports only its own assertions; non-trivial: >100 000 values admitted or >4096 evictions.',
    'C13': "cachesm stage: sequential client + harness-owned applier + synctest fake clock (DESIGN.md section 3, E1). Per case a config (MaxCost fitting 2..5 items or roomy, NumCounters, BufferItems, Metrics, IgnoreInternalCost, Cost fn, ShouldUpdate fn, ticker 1..5 s, setBufSize 1..64, bucket 1|5 s, 8|32 keys) and 5..60+ generated actions from Set/SetWithTTL/Del/Get/GetTTL/IterValues/Step(n)/Wait/park-in-Wait/Advance(d)/Sweep/SweepWith(program of Set/Del/Get/IterValues inside the j-th OnEvict)/Quiesce/UpdateMaxCost/Clear (stand-in or live applier), always ended by drain + Close + calls on the closed cache. Oracle: reference model with explicit FIFO (rules R1-R9); only assertions owned by this property are reported, a case that breaks another property's assertion first is discarded and counted. C13-owned at every drained point: keys(accounting)==keys(map)==model, IterValues yields each unexpired resident value once and stops when asked, RemainingCost()==MaxCost when nothing is left. Non-trivial: eviction + expiry sweep + Del in the case and a drained check with residents. cacheconc stage: 2..16 (thorough ..64) goroutines x 10..120 generated ops on 2..32 shared keys (hot-key bias, some owned keys), GOMAXPROCS 1..16, yielding/fake-sleeping callbacks, setBufSize 1..1024, MaxCost 3..22, inside a synctest bubble; every op and callback stamped from one atomic counter; history oracles are linear-time and schedule-independent. End state: accounting keys == map keys, IterValues == map values. long stage: per case three runs on caches of their own (metrics on): Set/Wait/Del churn over 20 000..140 000 fresh keys in batches of 8..256, overfilling with 30 000..170 000 keys, 6 000..40 000 Sets of cost 1..9 into a cache of 100 units; at checkpoints after Wait: RemainingCost()==MaxCost-sum of accounted costs<=MaxCost (C03), accounted keys==map keys (C13), KeysAdded-KeysEvicted==keys in the map and CostAdded-CostEvicted==MaxCost-RemainingCost() (C17); at Close every accepted value exited exactly once (C04); a panic of the applier kills the process (C08). Each check reports only its own assertions; non-trivial: >100 000 values admitted or >4096 evictions.",
    'C14': "cachesm stage: sequential client + harness-owned applier + synctest fake clock (DESIGN.md section 3, E1). Per case a config (MaxCost fitting 2..5 items or roomy, NumCounters, BufferItems, Metrics, IgnoreInternalCost, Cost fn, ShouldUpdate fn, ticker 1..5 s, setBufSize 1..64, bucket 1|5 s, 8|32 keys) and 5..60+ generated actions from Set/SetWithTTL/Del/Get/GetTTL/IterValues/Step(n)/Wait/park-in-Wait/Advance(d)/Sweep/SweepWith(program of Set/Del/Get/IterValues inside the j-th OnEvict)/Quiesce/UpdateMaxCost/Clear (stand-in or live applier), always ended by drain + Close + calls on the closed cache. Oracle: reference model with explicit FIFO (rules R1-R9); only assertions owned by this property are reported, a case that breaks another property's assertion first is discarded and counted. Roomy TTL profile with Sweep, SweepWith programs (Set with later/no/short TTL, Del, Get on keys of the swept bucket, executed inside the first or second OnEvict of the sweep), late application scenarios and Quiesce. C14-owned: a sweep removes only entries whose current expiration is non-zero and has passed; after Quiesce nothing expired for > 2 buckets is left. Non-trivial: a sweep removed >=1 entry while another entry was re-written during the sweep or applied after its expiry. sweepstress stage (synctest bubble, all processors): 200..8000 entries with ttl 300 ms in one bucket (one map shard or spread), 1..8 goroutines sleep until the instant of the tick that finds the bucket due and re-write every entry with ttl 1h or no ttl while the sweep runs; everything fits; every key whose re-write returned true must be served with the new value after Wait, and expiry processing must not report a re-written value. Non-trivial: some re-writes found the old entry and others came after the sweep had removed it. backlog stage (fake clock): 1..6 writers outpace an applier that spends 0.5..3 ms of fake time per item, write buffer 1..1024, 1..4 entries with ttl 1 ms..2.5 s expire meanwhile; once the tick that finds their bucket due has fired, the entries must be reclaimed (each reported once) before the applier has taken 20000 more items (generous on purpose: an applier that takes bounded batches per wake-up still passes); non-trivial: the write buffer was non-empty at >= 9 of 10 sampling instants (every 5 ms of fake time) and the entries were reclaimed under that load.",
    'C15': "cachesm stage: sequential client + harness-owned applier + synctest fake clock (DESIGN.md section 3, E1). Per case a config (MaxCost fitting 2..5 items or roomy, NumCounters, BufferItems, Metrics, IgnoreInternalCost, Cost fn, ShouldUpdate fn, ticker 1..5 s, setBufSize 1..64, bucket 1|5 s, 8|32 keys) and 5..60+ generated actions from Set/SetWithTTL/Del/Get/GetTTL/IterValues/Step(n)/Wait/park-in-Wait/Advance(d)/Sweep/SweepWith(program of Set/Del/Get/IterValues inside the j-th OnEvict)/Quiesce/UpdateMaxCost/Clear (stand-in or live applier), always ended by drain + Close + calls on the closed cache. Oracle: reference model with explicit FIFO (rules R1-R9); only assertions owned by this property are reported, a case that breaks another property's assertion first is discarded and counted. Clear/Close-heavy profile with parked waiters. C15-owned: after Clear every key misses, map and expiry index empty, access-frequency state zero, RemainingCost()==MaxCost(), the accounting names no key, metrics zero, parked waiters released, all previously live values exited once, run continues on the fresh model; after Close: Set false/Get miss/calls return, no processItems goroutine left, no callbacks. Non-trivial: a Clear found a buffered new item and a buffered update or tombstone.",
    'C17': "cachesm stage: sequential client + harness-owned applier + synctest fake clock (DESIGN.md section 3, E1). Per case a config (MaxCost fitting 2..5 items or roomy, NumCounters, BufferItems, Metrics, IgnoreInternalCost, Cost fn, ShouldUpdate fn, ticker 1..5 s, setBufSize 1..64, bucket 1|5 s, 8|32 keys) and 5..60+ generated actions from Set/SetWithTTL/Del/Get/GetTTL/IterValues/Step(n)/Wait/park-in-Wait/Advance(d)/Sweep/SweepWith(program of Set/Del/Get/IterValues inside the j-th OnEvict)/Quiesce/UpdateMaxCost/Clear (stand-in or live applier), always ended by drain + Close + calls on the closed cache. Oracle: reference model with explicit FIFO (rules R1-R9); only assertions owned by this property are reported, a case that breaks another property's assertion first is discarded and counted. Metrics on. C17-owned at drained points: Hits+Misses==Gets since creation/Clear, KeysAdded-KeysEvicted==resident keys, CostAdded-CostEvicted==MaxCost-RemainingCost (mod 2^64), SetsDropped==refused new-key Sets (and Set returns false iff the reference FIFO is full), GetsKept+GetsDropped<=Gets. Non-trivial: cost-lowering overwrite + eviction + drop. cacheconc stage: 2..16 (thorough ..64) goroutines x 10..120 generated ops on 2..32 shared keys (hot-key bias, some owned keys), GOMAXPROCS 1..16, yielding/fake-sleeping callbacks, setBufSize 1..1024, MaxCost 3..22, inside a synctest bubble; every op and callback stamped from one atomic counter; history oracles are linear-time and schedule-independent. End state laws from the history. long stage: per case three runs on caches of their own (metrics on): Set/Wait/Del churn over 20 000..140 000 fresh keys in batches of 8..256, overfilling with 30 000..170 000 keys, 6 000..40 000 Sets of cost 1..9 into a cache of 100 units; at checkpoints after Wait: RemainingCost()==MaxCost-sum of accounted costs<=MaxCost (C03), accounted keys==map keys (C13), KeysAdded-KeysEvicted==keys in the map and CostAdded-CostEvicted==MaxCost-RemainingCost() (C17); at Close every accepted value exited exactly once (C04); a panic of the applier kills the process (C08). Each check reports only its own assertions; non-trivial: >100 000 values admitted or >4096 evictions.",
    "C09": "policyconc stage: one Add that must evict 200..60000 cold residents runs while 1..6 batches of 64 unrelated recorded accesses are pushed 0..4 ms after it started, with the counters 1..200 (or far) from the TinyLFU reset; estimates of every tracked key are read before and after; every victim and a rejection must be justified by the reading before or by the reading after the halving (cases where a noise key touched a tracked counter are discarded and counted). Non-trivial: the period was completed by a concurrent batch, the newcomer lies between the halved and un-halved estimate of a hot resident, and something was evicted. policy stage: newDefaultPolicy with NumCounters 2..512, population 0..12 keys (costs 1 / 1..10 / 0..100) built through "
           "the fast path, 0..20 recorded accesses per key (round-robin, plus noise keys), MaxCost = sum + slack (0, 0..3, 0..60), "
           "incoming (key, cost) fitting / not fitting / == MaxCost / > MaxCost / cost 0 / already resident, own access count 0..20. "
           "Oracle (estimates snapshotted before the call): fits => admitted, no victims; every victim (first occurrences; stale "
           "repeats ignored) was resident, was needed (newcomer did not fit yet), has estimate <= newcomer's, and is the exact minimum "
           "when the population at the start <= lfuSample, otherwise the minimum of >= lfuSample-(i-1) distinct residents; rejection "
           "only for cost > MaxCost, resident key, or a strictly more frequent candidate (exactly: min estimate > newcomer's for "
           "small populations); accounting after the decision equals residents - victims (+ newcomer). Non-trivial: the decision "
           "needed >=1 eviction or ended in an out-voted rejection, with >=2 residents and >=2 distinct estimates among them; "
           "distinct = FNV hash of the case. cachesm stage: the same judge applied to every buffered insert the state machine applies (estimates snapshotted under the policy lock after synctest.Wait), victims/rejection observed through OnEvict/OnReject; a newcomer turned away as 'already resident' needs the key in the map or a Del of it on its way in the write buffer.",
    "C12": "seq stage: rapid state machine: initial size 0..8192; Allocate / AllocateAligned / Copy with sizes 0, 1..64, remaining-1, "
           "remaining, remaining+1, around the chunk end, 2*chunk+1, up to 1 MiB; Reset, TrimTo(m > first chunk)+Reset, and "
           "Reset+replay of the requests since the last Reset. Oracle: exact length, pairwise disjoint address intervals, every "
           "slice filled with an id-derived pattern that must be intact before each Reset and at the end, aligned results 8-byte "
           "aligned and zero (also after the arena was dirtied and Reset), Copy equal to and distinct from its input, Allocated() "
           "unchanged by a replay (unless a TrimTo happened). conc stage (-race): 2..32 goroutines x 1..40 requests biased to "
           "100..600 bytes on a 512-byte first chunk, GOMAXPROCS 2..16, each program run 3 times; same oracle over all goroutines' "
           "slices + race detector. Non-trivial: seq: >=2 chunk switches; conc: >=2 chunk switches and at >=1 chunk switch two "
           "calls of different goroutines that started before anything was returned from the new chunk both landed in it (a "
           "measured proxy for '>=2 goroutines overshooting the same chunk'); distinct = FNV hash of the request lists. long stage: "
           "40..160 MiB in 4..16 KiB requests, 60..120 requests above half a MiB, or 10^5..4*10^5 requests of 1..64 bytes since the last Reset (Allocate / "
           "AllocateAligned / Copy), a marker in the first and last byte of every slice, sorted address ranges, optional Reset and replay (no memory acquired).",
    "C11": "rapid: mode calloc / mmap tmp file / calloc+WithAutoMmap(threshold 64..8192), capacity 0..4096, optional WithMaxSize 16..3000; "
           "either a raw program (Write, Allocate+fill, AllocateOffset+fill, Reset) or a slice program (WriteSlice, SliceAllocate+fill, "
           "bulk appends, Reset, SortSlice, SortSliceBetween over generated slice-index ranges) - never mixed; lengths 0, 1..64, "
           ">capacity, up to 3000; slice counts up to ~3080 with bulk sizes placed around 1024/2048/3072; comparison functions "
           "lexicographic, reverse, length-then-lex, first-byte-only (ties); contents from alphabets of 1,2,3,26,256 symbols. Oracle: "
           "reference []byte / [][]byte: Bytes() equality, SliceIterate / Slice walk / SliceOffsets yield the non-empty slices in order, "
           "sort = same multiset, adjacent pairs ordered, bytes outside the range untouched; max size: a fitting write succeeds, an "
           "exceeding write panics and leaves the content unchanged, LenWithPadding <= max. Non-trivial: growth happened with data "
           "present (in auto-mmap mode: the calloc->mmap switch with data) and, if the case sorts, a sort of >=1025 slices or of a "
           "proper sub-range; distinct = FNV hash of (config, ops).",
    "C19": "rapid: NewBloomFilter(entries 1..2^18, locations 1..16) or (entries, rate 1e-12..0.999); 1..300 ops from Add/AddIfNotHas/Has/"
           "Clear/JSON round trip over hashes that are random, 0, 2^64-1, low-half-zero (all locations coincide), high-half-zero, "
           "half all-ones, shifted, or repeats of used hashes; up to 200 extra probe hashes. Oracle: reference set (added and not "
           "cleared => Has), AddIfNotHas == !Has-before and Has after, Has false for every probed hash after Clear, identical Has "
           "answers on both sides of JSONMarshal/JSONUnmarshal for all used hashes and probes (the run continues on the "
           "reconstructed filter). Non-trivial: >=64 members at the time of a round trip and >=1 special-pattern hash used; distinct = FNV "
           "hash of (parameters, ops). One case in six is 300..1500 Add/AddIfNotHas/Has/Clear operations on a filter of at most 300 entries without a round trip in between.",
    "C18": "sketch stage: cmSketch with NumCounters 2..4096 and around 2^13..2^20 (powers of two, +-1, small) and generated or random row seeds; ops "
           "Increment x n / Estimate / Reset / Clear over hashes that repeat, share all counters (same low bits) or the same byte "
           "(neighbour counter) with used hashes; oracle = reference [4][]uint8 table with the sketch's own seeds, compared cell by "
           "cell (after every op for <=256 counters, after Reset/Clear/last op otherwise) + table size == next power of two. "
           "lfu stage: tinyLFU with NumCounters 2..512: min(n,15) <= Estimate <= 16 for n recorded accesses since the last aging "
           "reset, no access lowers any tracked estimate, reset exactly every NumCounters accesses halving every counter and "
           "dropping all first-access marks, clear zeroes everything. enum stage: all 256 byte values x both halves for "
           "get/increment/reset/clear (exhaustive); next2Power(2^e+d) for e=1..62, d=-3..3 and the table size for e<=22. Non-trivial: a counter saturated and an aging reset happened afterwards; "
           "distinct = FNV hash of (NumCounters, ops).",
    "C10": "rapid state machine over z.Tree against map[uint64]uint64: per case a page size (4..255 keys per page, biased to 4..9), "
           "1..90 ops from Set/Get/DeleteBelow/IterateKV/rewriting IterateKV/Reset/ascending-descending runs/(rarely) a bulk insert "
           "that outgrows the 1 MiB buffer; one case in six runs in 'squeeze' mode (tree started on a one-page buffer and trimmed before each Set so that the buffer is reallocated at a generated page allocation); keys dense, random 64-bit, neighbours of live keys, boundaries 1,2,2^64-4..2^64-2; values "
           "1..16, random, 2^64-1; thresholds 0,1,2^64-1, v and v+1 of live values. Oracle: Get of touched keys and neighbours after each op, "
           "Get of every key ever used + IterateKV multiset + page-structure invariant after DeleteBelow/rewrite/Reset/end. Non-trivial: "
           "tree reached >=3 levels or >=8 pages AND a DeleteBelow removed >=1 and kept >=1 key AND a page was recycled AND a later Set "
           "reused a free page; distinct = FNV hash of (page size, op list). Rare plan: outgrow the first MiB of pages, Reset, regrow with other keys in another order.",
    "C16": "as C10 on NewTreePersistent in a per-case file with page sizes 80..4096 plus a Reopen op (Close; "
           "NewTreePersistent) anywhere; after Reopen: Stats equal except Allocated, full Get/IterateKV agreement with the model, "
           "page-structure invariant (free list acyclic, length NumPagesFree, disjoint from reachable, union = all pages); rare plans: outgrow the file before and after a reopen; fill to the last whole page slot of the initial file (+-1) and reopen; outgrow the file by a few pages, reopen (the whole file is mapped, its usable part an exact multiple of the page size), fill that mapping to its last whole slot (-1..+2), reopen. Faults (stale slice into a moved mapping) are turned into panics of the case. Non-trivial: "
           ">=1 Reopen with >=2 free pages and a later Set that consumed a free page; distinct = FNV hash of (page size, op list).",
    "C20": "rapid generator: even length 0..520 (biased to small and to 8-word block edges), offset 0..9 in a backing "
           "array with 8..17 adversarial words behind the slice, ascending keys (dense/sparse/saturating/duplicates), 0..pad words of spare capacity behind len(xs), "
           "k from {0, 2^64-1, key, key+-1, beyond last key, random}; oracle Search == Naive == local loop and equal "
           "answers for equal contents in different surroundings. Non-trivial: len%8 != 0 (or len 0), no key >= k inside "
           "the slice, and at least one of the words a 4-keys-per-step kernel would inspect behind the slice is >= k; "
           "distinct = FNV hash of (len, k, contents and following words). The enum stage enumerates every even "
           "length x every key position exhaustively with all-0 and all-ones trailing memory.",
}
