"""Stage table of the driver: which tests decide which property, with which budgets.

Each stage: name, pkg (ristretto|z|simd), test (Go test function), flavour (plain|race),
quick=(cases, shards), thorough=(cases, shards), optional replay_test, env, fuzz,
thorough_only, fixed_cases (the test does not use rapid's case count).
"""

STAGES = {
    "C20": [
        dict(name="search", pkg="simd", test="TestVf_C20", replay_test="TestVfReplay_C20",
             quick=(40000, 1), thorough=(1000000, 16), crash_is_violation=True),
        dict(name="enum", pkg="simd", test="TestVf_C20_Enum", quick=(1, 1), thorough=(1, 1), fixed_cases=True,
             crash_is_violation=True),
    ],
}

STAGES["C10"] = [
    dict(name="tree", pkg="z", test="TestVf_C10", replay_test="TestVfReplay_C10",
         quick=(3000, 1), thorough=(30000, 16), crash_is_violation=True),
]
STAGES["C16"] = [
    dict(name="ptree", pkg="z", test="TestVf_C16", replay_test="TestVfReplay_C16",
         quick=(800, 1), thorough=(4000, 16), crash_is_violation=True),
]

RULES = {
    "C10": "rapid state machine over z.Tree against map[uint64]uint64: per case a page size (4..255 keys per page, biased to 4..9), "
           "1..90 ops from Set/Get/DeleteBelow/IterateKV/rewriting IterateKV/Reset/ascending-descending runs/(rarely) a bulk insert "
           "that outgrows the 1 MiB buffer; keys dense, random 64-bit, neighbours of live keys, boundaries 1,2,2^64-4..2^64-2; values "
           "1..16, random, 2^64-1; thresholds 0,1,2^64-1, v and v+1 of live values. Oracle: Get of touched keys and neighbours after each op, "
           "Get of every key ever used + IterateKV multiset + page-structure invariant after DeleteBelow/rewrite/Reset/end. Non-trivial: "
           "tree reached >=3 levels or >=8 pages AND a DeleteBelow removed >=1 and kept >=1 key AND a page was recycled AND a later Set "
           "reused a free page; distinct = FNV hash of (page size, op list).",
    "C16": "as C10 on NewTreePersistent in a per-case file with page sizes 128..4096 (power of two) plus a Reopen op (Close; "
           "NewTreePersistent) anywhere; after Reopen: Stats equal except Allocated, full Get/IterateKV agreement with the model, "
           "page-structure invariant (free list acyclic, length NumPagesFree, disjoint from reachable, union = all pages). Non-trivial: "
           ">=1 Reopen with >=2 free pages and a later Set that consumed a free page; distinct = FNV hash of (page size, op list).",
    "C20": "rapid generator: even length 0..520 (biased to small and to 8-word block edges), offset 0..9 in a backing "
           "array with 8..17 adversarial words behind the slice, ascending keys (dense/sparse/saturating/duplicates), "
           "k from {0, 2^64-1, key, key+-1, beyond last key, random}; oracle Search == Naive == local loop and equal "
           "answers for equal contents in different surroundings. Non-trivial: len%8 != 0 (or len 0), no key >= k inside "
           "the slice, and at least one of the words a 4-keys-per-step kernel would inspect behind the slice is >= k; "
           "distinct = FNV hash of (len, k, contents and following words). The enum stage enumerates every even "
           "length x every key position exhaustively with all-0 and all-ones trailing memory.",
}
