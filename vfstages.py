"""Stage table of the driver: which tests decide which property, with which budgets.

Each stage: name, pkg (ristretto|z|simd), test (Go test function), flavour (plain|race),
quick=(cases, shards), thorough=(cases, shards), optional replay_test, env, fuzz,
thorough_only, fixed_cases (the test does not use rapid's case count).
"""

STAGES = {
    "C20": [
        dict(name="search", pkg="simd", test="TestVf_C20", replay_test="TestVfReplay_C20",
             quick=(40000, 1), thorough=(1000000, 16), crash_is_violation=True),
        dict(name="enum", pkg="simd", test="TestVf_C20_Enum", quick=(1, 1), thorough=(1, 1), fixed_cases=True,
             crash_is_violation=True),
    ],
}

RULES = {
    "C20": "rapid generator: even length 0..520 (biased to small and to 8-word block edges), offset 0..9 in a backing "
           "array with 8..17 adversarial words behind the slice, ascending keys (dense/sparse/saturating/duplicates), "
           "k from {0, 2^64-1, key, key+-1, beyond last key, random}; oracle Search == Naive == local loop and equal "
           "answers for equal contents in different surroundings. Non-trivial: len%8 != 0 (or len 0), no key >= k inside "
           "the slice, and at least one of the words a 4-keys-per-step kernel would inspect behind the slice is >= k; "
           "distinct = FNV hash of (len, k, contents and following words). The enum stage enumerates every even "
           "length x every key position exhaustively with all-0 and all-ones trailing memory.",
}
