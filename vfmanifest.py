ENGINES = [
    {"name": "E8 simd", "path": "harness/simd/search_test.go", "serves_properties": ["C20"],
     "kind_free_text": "rapid generators + exhaustive enumeration, differential against a reference loop, metamorphic (surroundings)"},
]
NOTES = ("All checks are property-based tests / fuzzers (pgregory.net/rapid v1.3.0, Go native fuzzing in the thorough tier) "
         "compiled into the packages of /repo's working tree through go test -overlay; see DESIGN.md. "
         "Exit 2 = inconclusive (build failure / wall-clock budget), never a violation.")
CHECKS = {
    "C20": dict(engine="E8 simd", design_ref="DESIGN.md section 4, C20",
                technique="property-based testing (rapid) + exhaustive enumeration of lengths and key positions; differential oracle against the reference search, metamorphic relation over surrounding memory",
                text="Generated (length, contents, following memory, k) cases compared with the portable reference; every even length 0..520 and every first-match position is additionally enumerated with five patterns of trailing memory. Exploration, not proof: 64-bit key contents are sampled.",
                note="Trusts the Go compiler/assembler and that the harness's backing arrays reproduce what can follow a slice in memory."),
}
