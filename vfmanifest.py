ENGINES = [
    {"name": "E4 ztree", "path": "harness/z/tree_test.go", "serves_properties": ["C10", "C16"],
     "kind_free_text": "rapid model-based state machine against map[uint64]uint64 with generated page sizes; white-box page-structure invariant"},
    {"name": "E7 zbloom", "path": "harness/z/bloom_test.go", "serves_properties": ["C19"],
     "kind_free_text": "rapid op sequences against a reference set; JSON round-trip differential"},
    {"name": "E3 sketch", "path": "harness/ristretto/sketch_test.go", "serves_properties": ["C18"],
     "kind_free_text": "rapid op sequences, differential against a reference counter table; exhaustive byte/nibble enumeration"},
    {"name": "E8 simd", "path": "harness/simd/search_test.go", "serves_properties": ["C20"],
     "kind_free_text": "rapid generators + exhaustive enumeration, differential against a reference loop, metamorphic (surroundings)"},
]
NOTES = ("All checks are property-based tests / fuzzers (pgregory.net/rapid v1.3.0, Go native fuzzing in the thorough tier) "
         "compiled into the packages of /repo's working tree through go test -overlay; see DESIGN.md. "
         "Exit 2 = inconclusive (build failure / wall-clock budget), never a violation.")
CHECKS = {
    "C10": dict(engine="E4 ztree", design_ref="DESIGN.md section 4, C10",
                technique="model-based property testing (rapid state machine vs reference map), generated page sizes, invariant over page structure",
                text="Generated Set/Get/DeleteBelow/IterateKV-rewrite/Reset histories on trees with 4..255 keys per page, compared with a map after every step (touched keys and neighbours) and completely after DeleteBelow/rewrite/Reset/end, plus the reachable/free page partition invariant. Exploration: finds shallow and medium-depth defects quickly (the DeleteBelow defect in 5 cases), no proof.",
                note="Trusts the reference map semantics derived from the property text; page sizes below the OS page size are reached through the package variables the repository's own tests already modify."),
    "C16": dict(engine="E4 ztree", design_ref="DESIGN.md section 4, C16",
                technique="model-based property testing (rapid state machine) with a generated Close/reopen action; stats and structure comparison across the reopen",
                text="The C10 state machine on file-backed trees with Reopen drawn anywhere: Stats (minus Allocated), Get/IterateKV agreement with the model and the free-list/reachable partition are checked after every reopen and the run continues, so reuse of recycled pages after a reopen is exercised. Clean close only (no crash faults), as the property states.",
                note="Page sizes restricted to powers of two 128..4096 (a page size that does not divide the file size is not producible outside tests). msync omissions are invisible through the page cache."),
    "C18": dict(engine="E3 sketch", design_ref="DESIGN.md section 4, C18",
                technique="property-based differential testing against a reference counter table + exhaustive enumeration of byte values",
                text="cmSketch is compared cell by cell with an obviously-correct byte-per-counter table using the sketch's own seeds; tinyLFU bounds (min(n,15) <= estimate <= 16, monotone between resets, exact reset period, halving, marks forgotten, clear) are asserted on generated access sequences; the nibble arithmetic is enumerated exhaustively.",
                note="In-package access to seeds, rows and the doorkeeper; bloom false positives are allowed for by the bounds."),
    "C19": dict(engine="E7 zbloom", design_ref="DESIGN.md section 4, C19",
                technique="property-based testing against a reference set; round-trip (JSON) differential on members and generated probes",
                text="Generated parameterisations and hash sets including degenerate bit patterns; no-false-negative, AddIfNotHas, Clear and JSON round-trip laws checked on every used hash and up to 200 probes per case.",
                note="'Has identically for every hash' is sampled (members + probes), not enumerated. NewBloomFilter(0, rate) loops for an astronomically long time and is outside the generated domain (DESIGN.md section 5)."),
    "C20": dict(engine="E8 simd", design_ref="DESIGN.md section 4, C20",
                technique="property-based testing (rapid) + exhaustive enumeration of lengths and key positions; differential oracle against the reference search, metamorphic relation over surrounding memory",
                text="Generated (length, contents, following memory, k) cases compared with the portable reference; every even length 0..520 and every first-match position is additionally enumerated with five patterns of trailing memory. Exploration, not proof: 64-bit key contents are sampled.",
                note="Trusts the Go compiler/assembler and that the harness's backing arrays reproduce what can follow a slice in memory."),
}
