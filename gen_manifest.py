#!/usr/bin/env python3
"""Writes MANIFEST.json from vfstages.STAGES and the per-property texts in vfmanifest.py."""
import json, os, sys
HERE = os.path.dirname(os.path.abspath(__file__))
sys.path.insert(0, HERE)
from vfstages import STAGES
from vfmanifest import CHECKS, ENGINES, NOTES

props = [json.loads(l)["id"] for l in open(os.path.join(HERE, "properties.jsonl"))]
checks, na = [], []
for pid in props:
    if pid in STAGES and pid in CHECKS:
        c = CHECKS[pid]
        checks.append({
            "property_id": pid,
            "quick_cmd": "./check %s --tier quick" % pid,
            "thorough_cmd": "./check %s --tier thorough" % pid,
            "evidence_file": "/verif/evidence/%s.json" % pid,
            "replay_cmd_template": "./check %s --replay {path}" % pid,
            "engine": c["engine"],
            "level_claimed": {"category": "exploration", "text": c["text"], "design_ref": c["design_ref"]},
            "level_note": c["note"],
            "technique": c["technique"],
        })
    else:
        na.append({"property_id": pid, "reason": "check not built yet in this revision of /verif (planned, see DESIGN.md section 4); no other technique is substituted"})
m = {
    "version": 1,
    "setup_cmd": "./check setup",
    "hooks": {
        "guard": "verif",
        "enable": "go test -c -tags verif -overlay <generated> -modfile <generated>: harness test files (//go:build verif) are added to the packages from /verif/harness; no line of /repo is changed",
        "baseline_off_cmd": "cd /repo && go test -mod=mod -vet=off -count=1 -timeout 25m ./...",
        "source_commits": [],
        "add_only": True,
    },
    "engines": ENGINES,
    "checks": checks,
    "notes": NOTES,
    "not_applicable": na,
}
json.dump(m, open(os.path.join(HERE, "MANIFEST.json"), "w"), indent=1)
print("checks:", [c["property_id"] for c in checks], "not_applicable:", [n["property_id"] for n in na])
